//! vh-exec-wasm: C07 — the WASM and the native state transition function behave identically.
//! Same world generator, templates and block letters as vh-exec (shared by `#[path]`),
//! every block is produced, validated and dry-run under both execution strategies of the
//! upgradable executor and the results are compared.
#![allow(dead_code)]
#[path = "../../vh-exec/src/c45.rs"]
mod c45;
#[path = "../../vh-exec/src/chain.rs"]
mod chain;
#[path = "../../vh-exec/src/subject.rs"]
mod subject;
#[path = "../../vh-exec/src/universe.rs"]
mod universe;

use chain::*;
use fuel_core_types::{
    blockchain::block::{Block, PartialFuelBlock},
    blockchain::header::PartialBlockHeader,
    fuel_tx::{
        field::{InputContract, MintAmount, MintAssetId, MintGasPrice, OutputContract},
        ContractId, Transaction, TxPointer,
    },
    services::{
        block_producer::Components,
        executor::{Error as ExecutorError, ExecutionResult, TransactionExecutionResult, ValidationResult},
    },
};
use fuel_core_storage::transactional::Changes;
use fuel_core_upgradable_executor::executor::Executor;
use mcx::*;
use serde_json::json;
use std::{collections::BTreeMap, sync::Mutex};
use subject::{Blk, ExecSubject, Prop, World};
use universe::{CpVariant, Universe};

fn main() {
    let cli = Cli::parse();
    match cli.property.as_str() {
        "C07" => c07(&cli),
        other => machinery_failure(&format!("vh-exec-wasm does not serve {other}")),
    }
}

struct WasmDiff {
    inner: ExecSubject,
    facts: Mutex<BTreeMap<String, u64>>,
}

impl WasmDiff {
    fn fact(&self, f: impl Into<String>) {
        *self.facts.lock().unwrap().entry(f.into()).or_default() += 1;
    }
}

fn prod_str(r: &Result<(ExecutionResult, Changes), ExecutorError>) -> Vec<(&'static str, String)> {
    match r {
        Err(e) => vec![("error", err_class(e))],
        Ok((res, ch)) => vec![
            ("block", block_str(&res.block)),
            // the statement does not cover the reasons attached to skipped transactions, only who was skipped
            ("skipped", format!("{:?}", res.skipped_transactions.iter().map(|(id, _)| id).collect::<Vec<_>>())),
            ("statuses", format!("{:?}", res.tx_status)),
            ("events", format!("{:?}", res.events)),
            ("changes", format!("{:?}", change_list(ch))),
        ],
    }
}

/// Cache-free rendering of a block: id (commits to every header field) + canonical bytes of every transaction.
fn block_str(b: &Block) -> String {
    format!("id {:?} height {} da {} txs {}", b.id(), b.header().height(), b.header().da_height().0, txs_str(b.transactions()))
}

fn txs_str(txs: &[Transaction]) -> String {
    use fuel_core_types::fuel_types::canonical::Serialize;
    txs.iter().map(|t| hex::encode(t.to_bytes())).collect::<Vec<_>>().join(",")
}

fn val_str(r: &Result<(ValidationResult, Changes), ExecutorError>) -> Vec<(&'static str, String)> {
    match r {
        Err(e) => vec![("error", err_class(e))],
        Ok((res, ch)) => vec![("statuses", format!("{:?}", res.tx_status)), ("events", format!("{:?}", res.events)), ("changes", format!("{:?}", change_list(ch)))],
    }
}

fn first_diff(a: &str, b: &str) -> String {
    let i = a.bytes().zip(b.bytes()).position(|(x, y)| x != y).unwrap_or(a.len().min(b.len()));
    let s = i.saturating_sub(60);
    format!("native …{}… vs wasm …{}…", &a[s..(i + 80).min(a.len())], &b[s..(i + 80).min(b.len())])
}

fn compare(what: &str, n: Vec<(&'static str, String)>, w: Vec<(&'static str, String)>) -> Result<(), Violation> {
    if n.len() != w.len() || n.first().map(|x| x.0) != w.first().map(|x| x.0) {
        return Err(viol(
            format!("{what}:accept-reject-differs"),
            format!("{what}: native gives {} but wasm gives {}", n.first().map(|x| format!("{} {}", x.0, &x.1[..x.1.len().min(200)])).unwrap_or_default(), w.first().map(|x| format!("{} {}", x.0, &x.1[..x.1.len().min(200)])).unwrap_or_default()),
        ));
    }
    for ((k, a), (_, b)) in n.iter().zip(w.iter()) {
        if a != b {
            return Err(viol(format!("{what}:{k}-differ"), format!("{what}: {k} differ between native and wasm: {}", first_diff(a, b))));
        }
    }
    Ok(())
}

impl Subject for WasmDiff {
    type World = World;
    type Op = Blk;
    fn name(&self) -> String {
        self.inner.name.clone()
    }
    fn fresh(&self) -> World {
        self.inner.fresh()
    }
    fn clone_world(&self, w: &World) -> Option<World> {
        Some(w.clone())
    }
    fn enabled(&self, w: &World) -> Vec<Blk> {
        self.inner.enabled(w)
    }
    fn label(&self, op: &Blk) -> String {
        self.inner.label(op)
    }
    fn canon(&self, w: &World) -> Vec<u8> {
        self.inner.canon(w)
    }
    fn interesting(&self, op: &Blk, obs: &str) -> bool {
        self.inner.interesting(op, obs)
    }
    fn deviation(&self, op: &Blk) -> u32 {
        self.inner.deviation(op)
    }

    fn step(&self, w: &mut World, op: &Blk) -> Result<String, Violation> {
        let u = &self.inner.u;
        let mut db = w.db();
        let t = tip(&db);
        let header = next_header(&t, op.da as u64);
        let txs: Vec<Transaction> = op.txs.iter().map(|i| u.templates[*i as usize].tx.clone()).collect();
        let cb = match op.cb {
            0 => ContractId::zeroed(),
            1 => u.c2,
            _ => u.c1,
        };
        // deviation letters: the relayer fails to read the events of DA height `rfail`
        let relayer = || {
            let mut r = MockRelayer::new(u);
            r.fail_at = op.rfail as u64;
            r
        };
        let native: Exec = Executor::native(db.clone(), relayer(), exec_config());
        let wasm: Exec = Executor::wasm(w.db(), relayer(), exec_config());

        // production
        let rn = produce(u, &native, header, txs.clone(), op.gp, cb, op.src);
        let rw = produce(u, &wasm, header, txs.clone(), op.gp, cb, op.src);
        compare("produce", prod_str(&rn), prod_str(&rw))?;
        if let (Ok((a, _)), Ok((b, _))) = (&rn, &rw) {
            if format!("{:?}", a.skipped_transactions) != format!("{:?}", b.skipped_transactions) {
                self.fact("info:skip-reason-differs-between-native-and-wasm");
            }
        }
        if let (Err(a), Err(b)) = (&rn, &rw) {
            if format!("{a:?}") != format!("{b:?}") {
                self.fact("info:production-error-text-differs");
            }
        }
        // dry run (latest height)
        let comp = || Components { header_to_produce: header, transactions_source: txs.clone(), coinbase_recipient: cb, gas_price: op.gp };
        let dn = native.dry_run(comp(), None, None, false);
        let dw = wasm.dry_run(comp(), None, None, false);
        let ds = |r: &Result<fuel_core_types::services::executor::DryRunResult, ExecutorError>| match r {
            Ok(d) => vec![
                ("transactions", txs_str(&d.transactions.iter().map(|(t, _)| t.clone()).collect::<Vec<_>>())),
                ("statuses", format!("{:?}", d.transactions.iter().map(|(_, s)| s).collect::<Vec<_>>())),
            ],
            Err(e) => vec![("error", err_class(e))],
        };
        compare("dry-run", ds(&dn), ds(&dw))?;
        self.fact(if dn.is_ok() { "dry-run-ok" } else { "dry-run-err" });

        let (res, changes) = match rn {
            Ok(x) => x,
            Err(e) => {
                self.fact(format!("produce-err:{}", err_class(&e)));
                return Ok(format!("produce-err {}", err_class(&e)));
            }
        };
        // validation of the produced block, and of two crafted invalid ones
        let vn = validate(&native, &res.block);
        let vw = validate(&wasm, &res.block);
        compare("validate", val_str(&vn), val_str(&vw))?;
        if vn.is_err() {
            self.fact("validate-produced-err");
        }
        let txs_b = res.block.transactions().to_vec();
        let n = txs_b.len();
        if let Some(mint) = txs_b[n - 1].as_mint() {
            let h = *res.block.header().height();
            let bad_mint: Transaction = Transaction::mint(
                TxPointer::new(h, (n - 1) as u16),
                mint.input_contract().clone(),
                *mint.output_contract(),
                mint.mint_amount().wrapping_add(1),
                *mint.mint_asset_id(),
                *mint.gas_price(),
            )
            .into();
            let mut crafted: Vec<(&str, Vec<Transaction>)> = vec![];
            let mut v = txs_b[..n - 1].to_vec();
            v.push(bad_mint);
            crafted.push(("bad-mint", v));
            if n > 1 {
                let mut v = txs_b[..n - 1].to_vec();
                v.push(txs_b[0].clone());
                v.push(
                    Transaction::mint(TxPointer::new(h, n as u16), mint.input_contract().clone(), *mint.output_contract(), *mint.mint_amount(), *mint.mint_asset_id(), *mint.gas_price())
                        .into(),
                );
                crafted.push(("dup-tx", v));
            }
            for (what, v) in crafted {
                let blk = rebuild(&res.block, v, &res);
                let cn = validate(&native, &blk);
                let cw = validate(&wasm, &blk);
                compare(&format!("validate-crafted-{what}"), val_str(&cn), val_str(&cw))?;
                self.fact(format!("crafted-{what}:{}", if cn.is_err() { "rejected-by-both" } else { "accepted-by-both" }));
            }
        }
        for (_, e) in &res.skipped_transactions {
            self.fact(format!("skip:{}", err_class(e)));
        }
        if res.tx_status.iter().any(subject::failed) {
            self.fact("status:failed");
        }
        commit_block(u, &mut db, changes, &res.block).map_err(|e| viol("commit-failed", e))?;
        w.snaps.push(db.dump());
        let st: Vec<&str> = res.tx_status.iter().map(|s| if subject::failed(s) { "F" } else { "S" }).collect();
        Ok(format!("h={} txs=[{}] skipped={} events={} block={}", t.height + 1, st[..st.len() - 1].join(","), res.skipped_transactions.len(), res.events.len(), hex::encode(&res.block.id().as_slice()[..4])))
    }
}

fn rebuild(orig: &Block, txs: Vec<Transaction>, res: &ExecutionResult) -> Block {
    let mut ids = vec![];
    for s in &res.tx_status {
        if let TransactionExecutionResult::Success { receipts, .. } = &s.result {
            ids.extend(receipts.iter().filter_map(|r| r.message_id()));
        }
    }
    PartialFuelBlock::new(PartialBlockHeader::from(orig.header()), txs).generate(&ids, orig.header().event_inbox_root()).expect("crafted block")
}

fn lists(singles: &[u8], max_len: usize) -> Vec<Vec<u8>> {
    let mut out: Vec<Vec<u8>> = vec![vec![]];
    let mut layer: Vec<Vec<u8>> = vec![vec![]];
    for _ in 0..max_len {
        let mut next = vec![];
        for l in &layer {
            for s in singles {
                let mut v = l.clone();
                v.push(*s);
                next.push(v);
            }
        }
        out.extend(next.iter().cloned());
        layer = next;
    }
    out
}

fn letters(lists: &[Vec<u8>], params: &[(u64, u8, u8)], src: u8) -> Vec<Blk> {
    let mut v = vec![];
    for l in lists {
        for (gp, cb, da) in params {
            v.push(Blk { txs: l.clone(), gp: *gp, cb: *cb, da: *da, src, bulk: 0, rfail: 0 });
        }
    }
    v
}

/// The WASM state transition function built by this package's own build script from the tree under test.
const FRESH_WASM: &[u8] = include_bytes!(concat!(env!("OUT_DIR"), "/bin/fuel-core-wasm-executor.wasm"));

/// If the blob embedded in `fuel-core-upgradable-executor` is not the one just built from the
/// sources (stale build-script output, see build.rs), make the executor use the fresh one through
/// the node's own mechanism: an uploaded bytecode registered for the block's STF version.
fn with_fresh_wasm(mut u: Universe) -> Universe {
    if FRESH_WASM == fuel_core_upgradable_executor::WASM_BYTECODE {
        return u;
    }
    use fuel_core_storage::{tables::UploadedBytecodes, transactional::WriteTransaction, StorageAsMut};
    use fuel_core_types::{fuel_tx::Bytes32, fuel_vm::UploadedBytecode};
    let mut db = ChainDb::from_snaps(&[u.genesis.clone()]);
    let mut tx = db.write_transaction();
    tx.storage_as_mut::<UploadedBytecodes>()
        .insert(&Bytes32::from([0x57u8; 32]), &UploadedBytecode::Completed(FRESH_WASM.to_vec()))
        .expect("insert uploaded bytecode");
    tx.commit().expect("commit uploaded bytecode");
    u.genesis = db.dump();
    u
}

fn c07(cli: &Cli) {
    let thorough = cli.tier == Tier::Thorough;
    let fresh_differs = FRESH_WASM != fuel_core_upgradable_executor::WASM_BYTECODE;
    let u = with_fresh_wasm(Universe::new(CpVariant::Default, 1));
    let all: Vec<u8> = (0..u.templates.len() as u8).collect();
    let t = |names: &[&str]| -> Vec<u8> { names.iter().map(|n| u.tid(n)).collect() };
    let mut plans: Vec<(WasmDiff, usize)> = vec![];
    let mk = |name: &str, u: Universe, l: Vec<Blk>| WasmDiff { inner: ExecSubject::new(name, u, Prop::C01, l), facts: Mutex::new(BTreeMap::new()) };
    // every template alone (and, thorough, every ordered pair) in one block
    let wide = letters(&lists(&all, if thorough { 2 } else { 1 }), &if thorough { vec![(1, 1, 0), (0, 0, 2), (1, 2, 3)] } else { vec![(1, 1, 0), (0, 0, 2)] }, SRC_ONCE);
    let mut wide = wide;
    for fail in 1..=3u8 {
        for da in 1..=3u8 {
            wide.push(Blk { txs: vec![], gp: 0, cb: 0, da, src: SRC_ONCE, bulk: 0, rfail: fail });
            wide.push(Blk { txs: vec![u.tid("xfer")], gp: 1, cb: 1, da, src: SRC_ONCE, bulk: 0, rfail: fail });
        }
    }
    plans.push((mk("wide: every template and relayer read failures, both strategies", u.clone(), wide), 1));
    // histories over a core set
    let core = t(&["xfer", "dep", "call_ok", "call_rvrt", "call_tro", "create", "call_c3", "msgdata_rvrt", "msg_relayed", "call_smo", "create_empty", "read_empty", "slot_empty_a", "slot_empty_b"]);
    let deep = letters(&lists(&core, 1), &[(1, 1, 1), (0, 0, 0)], SRC_ONCE);
    plans.push((mk("deep: histories over the core templates, both strategies", u.clone(), deep), if thorough { 3 } else { 2 }));
    // pre-checked transactions cross the WASM boundary in their serialized form
    let chk = letters(&lists(&t(&["xfer", "pred", "call_ok", "expiring", "missing", "blob"]), if thorough { 2 } else { 1 }), &[(1, 1, 1)], SRC_CHECKED);
    plans.push((mk("pre-checked transactions, both strategies", u.clone(), chk), 2));
    // tight gas limit: the source is asked repeatedly through the host function
    let ug = with_fresh_wasm(Universe::new(CpVariant::TinyGas, 0));
    let set: Vec<u8> = ["xfer", "call_oog", "spin", "call_ok"].iter().map(|n| ug.tid(n)).collect();
    let lim = letters(&lists(&set, if thorough { 3 } else { 2 }), &[(1, 1, 0)], SRC_ONCE);
    plans.push((mk("tight gas limit (source asked repeatedly), both strategies", ug, lim), 1));

    if let Some(path) = &cli.replay {
        let rf = load_replay(path);
        for (s, _) in &plans {
            if s.name() == rf.subject {
                replay_and_exit(s, &rf);
            }
        }
        machinery_failure("replay: unknown subject");
    }
    let mut run = Run::new(cli, "model_checking");
    let mut facts: BTreeMap<String, u64> = BTreeMap::new();
    let n = plans.len() as u64;
    for (s, depth) in &plans {
        let b = Bounds::new(*depth, cli).wall(cli.tier.pick(55, 1500) / n + 5);
        let r = explore(s, &b);
        for (k, v) in s.facts.lock().unwrap().iter() {
            *facts.entry(k.clone()).or_default() += v;
        }
        run.note(&format!("alphabet[{}]", s.name()), json!({"letters": s.inner.alphabet.len(), "depth": depth}));
        run.add(r);
    }
    let violated = run.reports.iter().any(|r| !r.violations.is_empty());
    for f in ["dry-run-ok", "dry-run-err", "crafted-bad-mint:rejected-by-both", "crafted-dup-tx:rejected-by-both", "status:failed", "skip:TransactionValidity.CoinDoesNotExist", "skip:GasOverflow", "produce-err:RelayerError", "produce-err"] {
        if !facts.keys().any(|k| k.starts_with(f)) && !violated {
            machinery_failure(&format!("vacuous run: fact `{f}` never observed"));
        }
    }
    run.note("facts", json!(facts));
    run.note("wasm_blob", json!({"bytes": FRESH_WASM.len(), "embedded_blob_differs_from_fresh_build": fresh_differs, "used": if fresh_differs { "fresh build, registered as uploaded bytecode for the STF version" } else { "embedded WASM_BYTECODE (identical to the fresh build)" }}));
    run.note("programs", json!(u.templates.len()));
    run.note("programs_are", json!("transaction templates (scripts / contract calls / create / blob / predicates)"));
    run.assume("native = Executor::native, wasm = Executor::wasm with the WASM_BYTECODE built by the repository's own build.rs from the tree under test; both run on the same parent state and relayer mock");
    run.assume("compared byte-for-byte via Debug renderings: produced block, skipped list, statuses, events, sorted storage changes, validation results, dry-run results, and error values of rejections");
    run.finish();
}
