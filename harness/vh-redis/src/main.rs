//! C25: replicated sequencers never commit different blocks at the same height.
//!
//! Real code under exploration: `RedisLeaderLeaseAdapter` (fuel-core), the real
//! `redis` client it uses, and the text of the six Lua scripts (read from the
//! repository at run time, executed by mini-Lua over MiniRedis). Model code: the
//! Lua interpreter, the ten Redis commands, and the replica driver that plays
//! PoA `MainTask` + importer (see `world.rs`).
mod lua;
mod miniredis;
mod resp;
mod world;

use mcx::*;
use serde_json::json;
use std::{
    sync::atomic::{AtomicU64, Ordering},
    time::Duration,
};
use world::{Cfg, Fate, Interf, Op, World};

/// Worlds older than this are rebuilt before the next letter: the `redis`
/// client's built-in 500 ms response timer must never get a chance to fire.
const REFRESH_AGE: Duration = Duration::from_millis(120);
const MAX_AGE: Duration = Duration::from_millis(350);

static REBUILDS: AtomicU64 = AtomicU64::new(0);
static HEIGHT_EXISTS: AtomicU64 = AtomicU64::new(0);
static FENCED: AtomicU64 = AtomicU64::new(0);
static LOCK_HELD: AtomicU64 = AtomicU64::new(0);
static UNRECONCILED: AtomicU64 = AtomicU64::new(0);
static REPAIR_WRITES: AtomicU64 = AtomicU64::new(0);
static NODE_HEIGHT_DUP: AtomicU64 = AtomicU64::new(0);
static LEADER_CHANGES: AtomicU64 = AtomicU64::new(0);

struct Managed {
    world: Option<World>,
    history: Vec<Op>,
}

struct C25 {
    cfg: Cfg,
}

impl C25 {
    fn build(&self, history: &[Op]) -> Result<World, Interf> {
        let mut w = World::new(self.cfg.clone())?;
        for op in history {
            w.apply(op)?;
            if w.check().is_err() {
                return Err(Interf("accepted history violates on rebuild".into()));
            }
            if w.age() > MAX_AGE {
                return Err(Interf("rebuild too slow".into()));
            }
        }
        Ok(w)
    }
}

fn count(obs: &str) {
    let c = |pat: &str, ctr: &AtomicU64| {
        if obs.contains(pat) {
            ctr.fetch_add(1, Ordering::Relaxed);
        }
    };
    c("HEIGHT_EXISTS", &HEIGHT_EXISTS);
    c("FENCING_ERROR", &FENCED);
    c("LOCK_HELD", &LOCK_HELD);
    c("unreconciled", &UNRECONCILED);
}

impl Subject for C25 {
    type World = Managed;
    type Op = Op;

    fn name(&self) -> String {
        self.cfg.name.clone()
    }

    fn fresh(&self) -> Managed {
        for _ in 0..5 {
            if let Ok(w) = World::new(self.cfg.clone()) {
                return Managed { world: Some(w), history: vec![] };
            }
        }
        machinery_failure("cannot build the C25 world (sockets/threads)")
    }

    fn enabled(&self, m: &Managed) -> Vec<Op> {
        m.world.as_ref().unwrap().enabled()
    }

    fn step(&self, m: &mut Managed, op: &Op) -> Result<String, Violation> {
        let mut last = String::new();
        for _attempt in 0..6 {
            let stale = match &m.world {
                Some(w) => w.age() > REFRESH_AGE,
                None => true,
            };
            if stale {
                m.world = None; // tear the old one down first
                REBUILDS.fetch_add(1, Ordering::Relaxed);
                match self.build(&m.history) {
                    Ok(w) => m.world = Some(w),
                    Err(Interf(e)) => {
                        last = e;
                        continue;
                    }
                }
            }
            let w = m.world.as_mut().unwrap();
            match w.apply(op) {
                Ok(obs) if w.age() <= MAX_AGE => {
                    m.history.push(op.clone());
                    count(&obs);
                    w.check()?;
                    if w.diag_node_height_dup {
                        NODE_HEIGHT_DUP.fetch_add(1, Ordering::Relaxed);
                    }
                    return Ok(obs);
                }
                Ok(_) => {
                    last = "letter finished after the age limit".into();
                    m.world = None;
                }
                Err(Interf(e)) => {
                    last = e;
                    m.world = None;
                }
            }
        }
        machinery_failure(&format!("{}: harness could not execute {op:?} after retries: {last}", self.cfg.name))
    }

    fn canon(&self, m: &Managed) -> Vec<u8> {
        m.world.as_ref().unwrap().canon()
    }

    fn deviation(&self, op: &Op) -> u32 {
        match op {
            Op::Tick(_) | Op::Commit(_) | Op::GhostExec(_) | Op::Restart(_) => 0,
            Op::Exec { fate, .. } => (*fate != Fate::Deliver) as u32,
            _ => 1,
        }
    }

    fn interesting(&self, op: &Op, obs: &str) -> bool {
        self.deviation(op) > 0 || obs.contains("=> -") || obs.contains("unreconciled") || obs.contains("commits")
    }

    fn required_labels(&self) -> Vec<String> {
        ["Tick", "Exec", "Commit"].iter().map(|s| s.to_string()).collect()
    }
}

fn configs(cli: &Cli) -> Vec<(Cfg, usize, u32)> {
    let base = Cfg {
        name: String::new(),
        replicas: 2,
        nodes: 3,
        budget: 0,
        stream_max_len: 1000,
        exact_trim: false,
        max_height: 2,
        max_epoch: 3,
        max_crashes: 1,
        allow_release: true,
    };
    let mut v = vec![];
    match cli.tier {
        Tier::Quick => {
            v.push((Cfg { name: "C25/r2n3b0/h2".into(), ..base.clone() }, 400, 1));
        }
        Tier::Thorough => {
            v.push((Cfg { name: "C25/r2n3b0/h2".into(), ..base.clone() }, 400, 2));
        }
    }
    v
}

fn main() {
    let cli = Cli::parse();
    if cli.property != "C25" {
        machinery_failure(&format!("vh-redis does not serve {}", cli.property));
    }
    let cfgs = configs(&cli);
    if let Some(path) = &cli.replay {
        let rf = load_replay(path);
        for (cfg, _, _) in cfgs {
            if cfg.name == rf.subject {
                replay_and_exit(&C25 { cfg }, &rf);
            }
        }
        machinery_failure("replay: unknown subject");
    }
    let mut run = Run::new(&cli, "model_checking");
    for (cfg, depth, devs) in cfgs {
        let s = C25 { cfg };
        let b = Bounds::new(depth, &cli).deviations(devs);
        let r = explore(&s, &b);
        run.add(r);
    }
    run.note("world_rebuilds_for_age_or_hiccup", json!(REBUILDS.load(Ordering::Relaxed)));
    run.note(
        "outcome_counts",
        json!({
            "HEIGHT_EXISTS": HEIGHT_EXISTS.load(Ordering::Relaxed),
            "FENCING_ERROR": FENCED.load(Ordering::Relaxed),
            "LOCK_HELD": LOCK_HELD.load(Ordering::Relaxed),
            "unreconciled_results": UNRECONCILED.load(Ordering::Relaxed),
            "repair_writes": REPAIR_WRITES.load(Ordering::Relaxed),
            "leader_changes": LEADER_CHANGES.load(Ordering::Relaxed),
            "diag_two_entries_same_height_on_one_node": NODE_HEIGHT_DUP.load(Ordering::Relaxed),
        }),
    );
    run.assume("mini-Lua and MiniRedis are trusted re-implementations of the Lua 5.1 subset and the Redis commands the six scripts use (no redis-server/Lua exists in the sandbox); they abort on anything outside that subset");
    run.assume("the replica driver (Tick/Commit) restates what PoA MainTask and the importer do around the adapter: leader_state(next) -> publish before local commit, publish error => release, reconciled blocks imported in order");
    run.assume("a timed-out / failed script call is presented to the client as an error reply (the adapter treats timeout and error alike); lease/node timeouts are set to one hour so real time never decides");
    run.finish();
}

#[cfg(test)]
mod tests {
    use super::*;

    fn cfg() -> Cfg {
        Cfg {
            name: "t".into(),
            replicas: 2,
            nodes: 3,
            budget: 0,
            stream_max_len: 1000,
            exact_trim: false,
            max_height: 2,
            max_epoch: 5,
            max_crashes: 1,
            allow_release: true,
        }
    }

    fn deliver_all(w: &mut World) {
        loop {
            let Some(op) = w.enabled().into_iter().find(|o| matches!(o, Op::Exec { fate: Fate::Deliver, .. })) else { break };
            let obs = w.apply(&op).unwrap();
            println!("  {op:?} -> {obs}");
            w.check().unwrap();
        }
    }

    #[test]
    fn single_replica_smoke() {
        let mut w = World::new(cfg()).unwrap();
        for h in 1..=2u32 {
            println!("{}", w.apply(&Op::Tick(0)).unwrap());
            deliver_all(&mut w);
            assert!(matches!(w.reps[0].phase, world::Phase::ReadyToCommit(_)), "{:?}", w.reps[0].phase);
            println!("{}", w.apply(&Op::Commit(0)).unwrap());
            assert_eq!(w.last_height(0), h);
        }
        // the other replica is a follower, then takes over after expiry and reconciles
        println!("{}", w.apply(&Op::Tick(1)).unwrap());
        deliver_all(&mut w);
        assert_eq!(w.reps[1].phase, world::Phase::Idle);
        println!("{}", w.apply(&Op::ExpireAll).unwrap());
        println!("{}", w.apply(&Op::Tick(1)).unwrap());
        deliver_all(&mut w);
        assert!(matches!(w.reps[1].phase, world::Phase::ReadyToImport(_)), "{:?}", w.reps[1].phase);
        w.apply(&Op::Commit(1)).unwrap();
        w.apply(&Op::Commit(1)).unwrap();
        w.check().unwrap();
        assert_eq!(w.reps[0].db, w.reps[1].db);
        println!("{}", String::from_utf8_lossy(&w.canon()));
    }
}
