//! C25: replicated sequencers never commit different blocks at the same height.
//!
//! Real code under exploration: `RedisLeaderLeaseAdapter` (fuel-core), the real
//! `redis` client it uses, and the text of the six Lua scripts (read from the
//! repository at run time, executed by mini-Lua over MiniRedis). Model code: the
//! Lua interpreter, the ten Redis commands, and the replica driver that plays
//! PoA `MainTask` + importer (see `world.rs`).
mod lua;
mod miniredis;
mod resp;
mod world;

use mcx::*;
use serde_json::json;
use std::sync::atomic::{AtomicU64, Ordering};
use world::{Cfg, Fate, Interf, Op, World};

static REBUILDS: AtomicU64 = AtomicU64::new(0);
static HEIGHT_EXISTS: AtomicU64 = AtomicU64::new(0);
static FENCED: AtomicU64 = AtomicU64::new(0);
static LOCK_HELD: AtomicU64 = AtomicU64::new(0);
static UNRECONCILED: AtomicU64 = AtomicU64::new(0);
static REPAIR_WRITES: AtomicU64 = AtomicU64::new(0);
static NODE_HEIGHT_DUP: AtomicU64 = AtomicU64::new(0);

/// One letter of the alphabet: the action plus its structural deviation cost in
/// the state where it is taken: +1 if it is a preemptive context switch (another
/// replica acts while the current one is in the middle of an operation), +1 if it
/// delivers a single call out of a join_all fan-out that still has several.
#[derive(Clone, Debug, serde::Serialize, serde::Deserialize)]
struct Letter {
    op: Op,
    #[serde(default)]
    extra: u32,
}

struct Managed {
    world: Option<World>,
    history: Vec<Op>,
}

struct C25 {
    cfg: Cfg,
    /// count preemptive context switches as deviations (false: unrestricted interleaving)
    bound_preemptions: bool,
}

impl C25 {
    fn structural(&self, w: &World, op: &Op) -> u32 {
        if self.bound_preemptions {
            w.structural_cost(op)
        } else {
            0
        }
    }

    fn build(&self, history: &[Op]) -> Result<World, Interf> {
        let mut w = World::new(self.cfg.clone())?;
        for op in history {
            w.apply(op)?;
            if w.check().is_err() {
                return Err(Interf("accepted history violates on rebuild".into()));
            }
        }
        Ok(w)
    }
}

fn count(obs: &str) {
    let c = |pat: &str, ctr: &AtomicU64| {
        if obs.contains(pat) {
            ctr.fetch_add(1, Ordering::Relaxed);
        }
    };
    c("HEIGHT_EXISTS", &HEIGHT_EXISTS);
    c("FENCING_ERROR", &FENCED);
    c("LOCK_HELD", &LOCK_HELD);
    c("unreconciled", &UNRECONCILED);
    c("repair-write", &REPAIR_WRITES);
}

impl Subject for C25 {
    type World = Managed;
    type Op = Letter;

    fn name(&self) -> String {
        self.cfg.name.clone()
    }

    fn fresh(&self) -> Managed {
        for _ in 0..5 {
            if let Ok(w) = World::new(self.cfg.clone()) {
                return Managed { world: Some(w), history: vec![] };
            }
        }
        machinery_failure("cannot build the C25 world (sockets/threads)")
    }

    fn enabled(&self, m: &Managed) -> Vec<Letter> {
        let w = m.world.as_ref().unwrap();
        w.enabled().into_iter().map(|op| Letter { extra: self.structural(w, &op), op }).collect()
    }

    fn label(&self, l: &Letter) -> String {
        let s = format!("{:?}", l.op);
        s.split(|c: char| !c.is_alphanumeric()).next().unwrap_or("").to_string()
    }

    fn step(&self, m: &mut Managed, letter: &Letter) -> Result<String, Violation> {
        let op = &letter.op;
        let mut last = String::new();
        for _attempt in 0..6 {
            if m.world.is_none() {
                m.world = None; // tear the old one down first
                REBUILDS.fetch_add(1, Ordering::Relaxed);
                match self.build(&m.history) {
                    Ok(w) => m.world = Some(w),
                    Err(Interf(e)) => {
                        last = e;
                        continue;
                    }
                }
            }
            let w = m.world.as_mut().unwrap();
            if self.structural(w, op) != letter.extra {
                machinery_failure(&format!("{}: letter {letter:?} disagrees with the world about its structural cost", self.cfg.name));
            }
            match w.apply(op) {
                Ok(obs) => {
                    m.history.push(op.clone());
                    count(&obs);
                    w.check()?;
                    if w.diag_node_height_dup {
                        NODE_HEIGHT_DUP.fetch_add(1, Ordering::Relaxed);
                    }
                    return Ok(obs);
                }
                Err(Interf(e)) => {
                    last = e;
                    m.world = None;
                }
            }
        }
        machinery_failure(&format!("{}: harness could not execute {op:?} after retries: {last}", self.cfg.name))
    }

    fn canon(&self, m: &Managed) -> Vec<u8> {
        m.world.as_ref().unwrap().canon()
    }

    fn deviation(&self, l: &Letter) -> u32 {
        let fault = match &l.op {
            Op::Tick(_) | Op::Commit(_) | Op::GhostExec(_) | Op::Restart(_) | Op::Sync(_) | Op::ExpireAll | Op::Heal { .. } => 0,
            Op::Exec { fate, .. } => (*fate != Fate::Deliver) as u32,
            Op::Batch { fates, .. } => fates.iter().filter(|f| **f != Fate::Deliver).count() as u32,
            _ => 1,
        };
        fault + l.extra
    }

    fn interesting(&self, l: &Letter, obs: &str) -> bool {
        self.deviation(l) > 0 || obs.contains("=> -") || obs.contains("unreconciled") || obs.contains("commits")
    }

    fn required_labels(&self) -> Vec<String> {
        if std::env::var("VH_DEPTH").is_ok() {
            return vec![];
        }
        let mut v = vec!["Tick", "Exec", "Batch", "Commit", "Sync", "ExpireAll", "Partition"];
        if self.cfg.expire_one {
            v.push("Expire");
        }
        if self.cfg.max_crashes > 0 {
            v.extend(["Crash", "Restart"]);
        }
        if self.cfg.allow_release {
            v.push("Release");
        }
        if self.cfg.budget > 0 {
            v.push("WipeNode");
        }
        v.iter().map(|s| s.to_string()).collect()
    }
}

fn env(k: &str) -> Option<u64> {
    std::env::var(k).ok().and_then(|v| v.parse::<u64>().ok())
}

/// (configuration, depth bound, deviation bound, count preemptions)
fn configs(cli: &Cli) -> Vec<(Cfg, usize, u32, bool)> {
    let base = Cfg {
        name: String::new(),
        replicas: 2,
        nodes: 3,
        budget: 0,
        stream_max_len: 1000,
        exact_trim: false,
        max_height: 2,
        max_epoch: 3,
        max_crashes: 1,
        allow_release: true,
        allow_sync: true,
        standby_until: 0,
        fine_faults: false,
        max_partitions: 1,
        expire_one: true,
    };
    let mut v = vec![];
    // standby: replica 0 produces `max_height` blocks alone (replica 1 follows over P2P), then both are free
    let standby = Cfg { standby_until: 2, max_epoch: 2, ..base.clone() };
    // the quick configurations are part of both tiers (always run to completion)
    {
        {
            // every macro fault at every operation boundary, one height, one leader change
            v.push((Cfg { name: "C25/r2n3b0/h1".into(), max_height: 1, max_epoch: 2, ..base.clone() }, 400, 1, true));
            // fail-over after two blocks; the one deviation is a static cut of one replica from one node
            v.push((Cfg { name: "C25/r2n3b0/h2/standby".into(), max_crashes: 0, allow_release: false, expire_one: false, ..standby.clone() }, 400, 1, true));
            // even node count: 2 nodes => the quorum must be 2 (a "majority" of N/2 would allow two disjoint quorums)
            v.push((Cfg { name: "C25/r2n2b0/h1".into(), nodes: 2, max_height: 1, max_epoch: 2, ..base.clone() }, 400, 1, true));
        }
    }
    match cli.tier {
        Tier::Quick => {}
        Tier::Thorough => {
            v.push((Cfg { name: "C25/r2n3b0/h2/standby/all".into(), ..standby.clone() }, 400, 1, true));
            v.push((Cfg { name: "C25/r2n3b0/h1/fine".into(), max_height: 1, max_epoch: 2, fine_faults: true, ..base.clone() }, 400, 1, true));
            v.push((Cfg { name: "C25/r2n3b0/h2".into(), ..base.clone() }, 400, 1, true));
            v.push((Cfg { name: "C25/r3n3b0/h1".into(), replicas: 3, max_height: 1, max_epoch: 2, ..base.clone() }, 400, 1, true));
            v.push((Cfg { name: "C25/r2n3b1/h2/standby".into(), budget: 1, ..standby.clone() }, 400, 1, true));
            v.push((Cfg { name: "C25/r2n3b0/h3/standby/trim2".into(), stream_max_len: 2, exact_trim: true, max_height: 3, standby_until: 3, max_crashes: 0, allow_release: false, ..standby.clone() }, 400, 1, true));
            v.push((Cfg { name: "C25/r2n4b0/h1".into(), nodes: 4, max_height: 1, max_epoch: 2, ..base.clone() }, 400, 1, true));
            v.push((Cfg { name: "C25/r2n3b0/h1/d2".into(), max_height: 1, max_epoch: 2, max_partitions: 2, ..base.clone() }, 400, 2, true));
        }
    }
    // debugging knobs (never set by ./check)
    if let Some(i) = env("VH_ONLY") {
        if (i as usize) < v.len() {
            v = vec![v.remove(i as usize)];
        }
    }
    for (c, depth, devs, pre) in v.iter_mut() {
        if let Some(x) = env("VH_HEIGHT") {
            c.max_height = x as u32;
        }
        if let Some(x) = env("VH_EPOCH") {
            c.max_epoch = x;
        }
        if let Some(x) = env("VH_CRASHES") {
            c.max_crashes = x as u32;
        }
        if let Some(x) = env("VH_SYNC") {
            c.allow_sync = x != 0;
        }
        if let Some(x) = env("VH_RELEASE") {
            c.allow_release = x != 0;
        }
        if let Some(x) = env("VH_DEPTH") {
            *depth = x as usize;
        }
        if let Some(x) = env("VH_DEVS") {
            *devs = x as u32;
        }
        if let Some(x) = env("VH_STANDBY") {
            c.standby_until = x as u32;
        }
        if let Some(x) = env("VH_FINE") {
            c.fine_faults = x != 0;
        }
        if let Some(x) = env("VH_PRE") {
            *pre = x != 0;
        }
    }
    v
}

fn main() {
    let cli = Cli::parse();
    if cli.property != "C25" {
        machinery_failure(&format!("vh-redis does not serve {}", cli.property));
    }
    if let Some(path) = &cli.replay {
        let rf = load_replay(path);
        // the subject may belong to either tier
        for tier in [Tier::Quick, Tier::Thorough] {
            let c = Cli { tier, ..cli.clone() };
            for (cfg, _, _, pre) in configs(&c) {
                if cfg.name == rf.subject {
                    replay_and_exit(&C25 { cfg, bound_preemptions: pre }, &rf);
                }
            }
        }
        machinery_failure("replay: unknown subject");
    }
    let cfgs = configs(&cli);
    let n_quick = if env("VH_ONLY").is_some() { 0 } else { configs(&Cli { tier: Tier::Quick, ..cli.clone() }).len() };
    let n_deep = cfgs.len().saturating_sub(n_quick).max(1) as u64;
    let mut run = Run::new(&cli, "model_checking");
    for (i, (cfg, depth, devs, pre)) in cfgs.into_iter().enumerate() {
        let s = C25 { cfg, bound_preemptions: pre };
        let mut b = Bounds::new(depth, &cli).deviations(devs);
        if let Some(w) = env("VH_WALL") {
            b = b.wall(w);
        } else if i >= n_quick {
            b = b.wall(1200 / n_deep);
        } else {
            // the quick bound is sized to finish in well under a minute on an idle 16-core
            // machine; on an overloaded one it must still finish (same verdict every time)
            b = b.wall(1500);
        }
        let r = explore(&s, &b);
        println!("  frontier sizes: {:?}", r.frontier_sizes);
        println!("  label hits: {:?}", r.label_hits);
        run.add(r);
    }
    run.note("world_rebuilds_after_harness_hiccup", json!(REBUILDS.load(Ordering::Relaxed)));
    run.note(
        "replica_worker_threads",
        json!({"created": world::WORKERS_CREATED.load(Ordering::Relaxed), "discarded": world::WORKERS_DISCARDED.load(Ordering::Relaxed)}),
    );
    run.note(
        "outcome_counts",
        json!({
            "HEIGHT_EXISTS": HEIGHT_EXISTS.load(Ordering::Relaxed),
            "FENCING_ERROR": FENCED.load(Ordering::Relaxed),
            "LOCK_HELD": LOCK_HELD.load(Ordering::Relaxed),
            "unreconciled_results": UNRECONCILED.load(Ordering::Relaxed),
            "repair_writes": REPAIR_WRITES.load(Ordering::Relaxed),
            "diag_two_entries_same_height_on_one_node": NODE_HEIGHT_DUP.load(Ordering::Relaxed),
        }),
    );
    run.assume("mini-Lua and MiniRedis are trusted re-implementations of the Lua 5.1 subset and the Redis commands the six scripts use (no redis-server/Lua exists in the sandbox); they abort on anything outside that subset");
    run.assume("deviation = a fault letter, or a preemptive context switch (another replica acts while one is in the middle of leader_state/publish/release), or the delivery of a single reply out of a join_all fan-out that still has several outstanding (otherwise a fan-out is answered as one batch in node order, each call with its own fate); write_block calls of a publish are always answered one by one in any order; late execution of straggler/ghost calls and P2P sync cost nothing");
    run.assume("the replica driver (Tick/Commit/Sync) restates what PoA MainTask and the importer do around the adapter: leader_state(next) -> publish before local commit, publish error => release, reconciled blocks imported in order");
    run.assume("a timed-out / failed script call is presented to the client as an error reply (the adapter treats timeout and error alike); lease/node timeouts are set to one hour so real time never decides");
    run.finish();
}

#[cfg(test)]
mod tests {
    use super::*;

    fn cfg() -> Cfg {
        Cfg {
            name: "t".into(),
            replicas: 2,
            nodes: 3,
            budget: 0,
            stream_max_len: 1000,
            exact_trim: false,
            max_height: 2,
            max_epoch: 5,
            max_crashes: 1,
            allow_release: true,
            allow_sync: true,
            standby_until: 0,
            fine_faults: true,
            max_partitions: 1,
            expire_one: true,
        }
    }

    fn deliver_all(w: &mut World) {
        loop {
            let Some(op) = w.enabled().into_iter().find(|o| matches!(o, Op::Exec { fate: Fate::Deliver, .. })) else { break };
            let obs = w.apply(&op).unwrap();
            println!("  {op:?} -> {obs}");
            w.check().unwrap();
        }
    }

    #[test]
    fn single_replica_smoke() {
        let mut w = World::new(cfg()).unwrap();
        for h in 1..=2u32 {
            println!("{}", w.apply(&Op::Tick(0)).unwrap());
            deliver_all(&mut w);
            assert!(matches!(w.reps[0].phase, world::Phase::ReadyToCommit(_)), "{:?}", w.reps[0].phase);
            println!("{}", w.apply(&Op::Commit(0)).unwrap());
            assert_eq!(w.last_height(0), h);
        }
        // the other replica is a follower, then takes over after expiry and reconciles
        println!("{}", w.apply(&Op::Tick(1)).unwrap());
        deliver_all(&mut w);
        assert_eq!(w.reps[1].phase, world::Phase::Idle);
        println!("{}", w.apply(&Op::ExpireAll).unwrap());
        println!("{}", w.apply(&Op::Tick(1)).unwrap());
        deliver_all(&mut w);
        assert!(matches!(w.reps[1].phase, world::Phase::ReadyToImport(_)), "{:?}", w.reps[1].phase);
        w.apply(&Op::Commit(1)).unwrap();
        w.apply(&Op::Commit(1)).unwrap();
        w.check().unwrap();
        assert_eq!(w.reps[0].db, w.reps[1].db);
        println!("{}", String::from_utf8_lossy(&w.canon()));
    }
}

#[cfg(test)]
mod bench {
    use super::*;
    #[test]
    fn bench_world() {
        let cfg = Cfg { name: "t".into(), replicas: 2, nodes: 3, budget: 0, stream_max_len: 1000, exact_trim: false, max_height: 2, max_epoch: 5, max_crashes: 1, allow_release: true, allow_sync: true, standby_until: 0, fine_faults: true, max_partitions: 1, expire_one: true };
        let t = std::time::Instant::now();
        for _ in 0..50 {
            let w = World::new(cfg.clone()).unwrap();
            drop(w);
        }
        println!("new+drop: {:?} each", t.elapsed() / 50);
        let mut tn = std::time::Duration::ZERO;
        let mut td = std::time::Duration::ZERO;
        for _ in 0..50 {
            let t = std::time::Instant::now();
            let w = World::new(cfg.clone()).unwrap();
            tn += t.elapsed();
            let t = std::time::Instant::now();
            drop(w);
            td += t.elapsed();
        }
        println!("new {:?} drop {:?}", tn / 50, td / 50);
        let t = std::time::Instant::now();
        for _ in 0..50 {
            let h = std::thread::spawn(|| {
                let rt = tokio::runtime::Builder::new_current_thread().enable_all().start_paused(true).build().unwrap();
                drop(rt);
            });
            h.join().unwrap();
        }
        println!("thread+runtime: {:?} each", t.elapsed() / 50);
        let t = std::time::Instant::now();
        for _ in 0..50 {
            let h = std::thread::spawn(|| {});
            h.join().unwrap();
        }
        println!("thread only: {:?} each", t.elapsed() / 50);
        let t = std::time::Instant::now();
        let mut letters = 0;
        for _ in 0..50 {
            let mut w = World::new(cfg.clone()).unwrap();
            w.apply(&Op::Tick(0)).unwrap();
            letters += 1;
            loop {
                let Some(op) = w.enabled().into_iter().find(|o| matches!(o, Op::Exec { fate: Fate::Deliver, .. })) else { break };
                w.apply(&op).unwrap();
                letters += 1;
            }
        }
        println!("50 worlds with {letters} letters: {:?}", t.elapsed());
        let mut w = World::new(cfg.clone()).unwrap();
        let t = std::time::Instant::now();
        w.apply(&Op::Tick(0)).unwrap();
        println!("Tick: {:?}", t.elapsed());
        loop {
            let t = std::time::Instant::now();
            let en = w.enabled();
            let te = t.elapsed();
            let Some(op) = en.into_iter().find(|o| matches!(o, Op::Exec { fate: Fate::Deliver, .. })) else { break };
            let t = std::time::Instant::now();
            let obs = w.apply(&op).unwrap();
            let ta = t.elapsed();
            let t = std::time::Instant::now();
            let _ = w.canon();
            w.check().unwrap();
            println!("enabled {te:?} apply {ta:?} canon+check {:?}  {obs}", t.elapsed());
        }
    }
}

#[cfg(test)]
mod directed {
    use super::*;

    /// Deliver every queued call of replica r (in queue order), except that calls whose
    /// description starts with `what` on node `n` get `fate`.
    fn run(w: &mut World, r: usize, special: &[(&str, usize, Fate)]) {
        loop {
            let Some(c) = w.queue.iter().find(|c| c.r == r).cloned() else { break };
            let k = 0;
            let fate = special.iter().find(|(what, n, _)| c.desc.starts_with(what) && *n == c.n).map(|x| x.2).unwrap_or(Fate::Deliver);
            let op = Op::Exec { r, n: c.n, k, fate };
            let obs = w.apply(&op).unwrap();
            println!("  {op:?} -> {obs}");
            if let Err(v) = w.check() {
                println!("VIOLATION {} {}", v.sig, v.msg);
                panic!("violation");
            }
        }
    }

    fn cfg() -> Cfg {
        Cfg { name: "t".into(), replicas: 2, nodes: 3, budget: 0, stream_max_len: 1000, exact_trim: false, max_height: 3, max_epoch: 9, max_crashes: 2, allow_release: true, allow_sync: true, standby_until: 0, fine_faults: true, max_partitions: 1, expire_one: true }
    }

    /// Execute the queued call of replica r on node n whose description starts with `what`.
    fn one(w: &mut World, r: usize, n: usize, what: &str, fate: Fate) -> Result<(), Violation> {
        let k = w.queue.iter().filter(|c| c.r == r && c.n == n).position(|c| c.desc.starts_with(what)).expect("no such call");
        let op = Op::Exec { r, n, k, fate };
        let obs = w.apply(&op).unwrap();
        println!("  {op:?} -> {obs}");
        w.check()
    }

    /// Deliver everything replica r is waiting for, except `write` calls.
    fn reads(w: &mut World, r: usize, special: &[(&str, usize, Fate)]) {
        loop {
            let Some(c) = w.queue.iter().find(|c| c.r == r && !c.desc.starts_with("write")).cloned() else { break };
            let fate = special.iter().find(|(what, n, _)| c.desc.starts_with(what) && *n == c.n).map(|x| x.2).unwrap_or(Fate::Deliver);
            one(w, r, c.n, &c.desc.clone(), fate).unwrap();
        }
    }

    /// The same defect with two deviations only: the straggler write of height 1
    /// reaches node 2 after the write of height 2 (plain message reordering), the
    /// follower learned block 1 over P2P, one lease expiry, one failed read.
    #[test]
    fn suspect_5_6_two_deviations() {
        let mut w = World::new(cfg()).unwrap();
        w.apply(&Op::Tick(0)).unwrap();
        reads(&mut w, 0, &[]);
        one(&mut w, 0, 0, "write", Fate::Deliver).unwrap();
        one(&mut w, 0, 1, "write", Fate::Deliver).unwrap(); // quorum: publish returns, n2's write stays in flight
        w.apply(&Op::Commit(0)).unwrap();
        w.apply(&Op::Sync(1)).unwrap();
        w.apply(&Op::Tick(0)).unwrap();
        reads(&mut w, 0, &[]);
        one(&mut w, 0, 1, "write(e1,r0.0,h2", Fate::Deliver).unwrap();
        one(&mut w, 0, 2, "write(e1,r0.0,h2", Fate::Deliver).unwrap(); // quorum; n0's write stays in flight
        w.apply(&Op::Commit(0)).unwrap();
        one(&mut w, 0, 2, "write(e1,r0.0,h1", Fate::Deliver).unwrap(); // late straggler: h1 lands after h2 on n2
        println!("streams {:?}", w.streams());
        w.apply(&Op::ExpireAll).unwrap();
        w.apply(&Op::Tick(1)).unwrap();
        reads(&mut w, 1, &[("latest", 1, Fate::Drop)]);
        println!("phase {:?}", w.reps[1].phase);
        one(&mut w, 1, 0, "write(e2,r1.0,h2", Fate::Deliver).unwrap();
        let v = one(&mut w, 1, 2, "write(e2,r1.0,h2", Fate::Deliver).unwrap_err();
        println!("{} / {}", v.sig, v.msg);
        assert_eq!(v.sig, "C25:QuorumUnique:two-blocks-on-one-node-after-lower-height-was-appended-later");
    }

    #[test]
    #[should_panic(expected = "violation")]
    fn suspect_5_6_out_of_order_repair_hides_height() {
        let mut w = World::new(cfg()).unwrap();
        // h1: written to n0,n1 only
        w.apply(&Op::Tick(0)).unwrap();
        run(&mut w, 0, &[("write", 2, Fate::Drop)]);
        w.apply(&Op::Commit(0)).unwrap();
        // h2: written to n1,n2 only
        w.apply(&Op::Tick(0)).unwrap();
        run(&mut w, 0, &[("write", 0, Fate::Drop)]);
        w.apply(&Op::Commit(0)).unwrap();
        println!("streams {:?}", w.streams());
        // B takes over, its read of n0 fails => h1 looks sub-quorum => repair appends h1 after h2 on n2
        w.apply(&Op::ExpireAll).unwrap();
        w.apply(&Op::Tick(1)).unwrap();
        run(&mut w, 1, &[("entries", 0, Fate::Drop)]);
        println!("streams {:?} phase {:?}", w.streams(), w.reps[1].phase);
        w.apply(&Op::Commit(1)).unwrap();
        w.check().unwrap();
        w.apply(&Op::Crash(1)).unwrap();
        w.apply(&Op::Restart(1)).unwrap();
        w.apply(&Op::ExpireAll).unwrap();
        w.apply(&Op::Tick(1)).unwrap();
        run(&mut w, 1, &[("latest", 1, Fate::Drop)]);
        println!("streams {:?} phase {:?}", w.streams(), w.reps[1].phase);
        w.check().unwrap();
        println!("{}", w.apply(&Op::Commit(1)).unwrap());
        if let Err(v) = w.check() {
            println!("VIOLATION {} {}", v.sig, v.msg);
            panic!("violation");
        }
    }
}
