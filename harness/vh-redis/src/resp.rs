//! RESP2 wire format: reply encoder and client-command (array of bulk strings) parser.

#[derive(Clone, Debug, PartialEq)]
pub enum Resp {
    Simple(Vec<u8>),
    Error(Vec<u8>),
    Int(i64),
    Bulk(Vec<u8>),
    NilBulk,
    Array(Vec<Resp>),
}

impl Resp {
    pub fn ok() -> Resp {
        Resp::Simple(b"OK".to_vec())
    }
    pub fn err(s: impl AsRef<[u8]>) -> Resp {
        // error lines must not contain CR/LF
        let b: Vec<u8> = s.as_ref().iter().map(|c| if *c == b'\r' || *c == b'\n' { b' ' } else { *c }).collect();
        Resp::Error(b)
    }
    pub fn encode(&self, out: &mut Vec<u8>) {
        match self {
            Resp::Simple(s) => {
                out.push(b'+');
                out.extend_from_slice(s);
                out.extend_from_slice(b"\r\n");
            }
            Resp::Error(s) => {
                out.push(b'-');
                out.extend_from_slice(s);
                out.extend_from_slice(b"\r\n");
            }
            Resp::Int(i) => {
                out.extend_from_slice(format!(":{i}\r\n").as_bytes());
            }
            Resp::Bulk(b) => {
                out.extend_from_slice(format!("${}\r\n", b.len()).as_bytes());
                out.extend_from_slice(b);
                out.extend_from_slice(b"\r\n");
            }
            Resp::NilBulk => out.extend_from_slice(b"$-1\r\n"),
            Resp::Array(a) => {
                out.extend_from_slice(format!("*{}\r\n", a.len()).as_bytes());
                for x in a {
                    x.encode(out);
                }
            }
        }
    }
    pub fn to_bytes(&self) -> Vec<u8> {
        let mut v = vec![];
        self.encode(&mut v);
        v
    }
    /// Short deterministic rendering for observations (binary payloads abbreviated by the caller).
    pub fn brief(&self) -> String {
        match self {
            Resp::Simple(s) => format!("+{}", String::from_utf8_lossy(s)),
            Resp::Error(s) => format!("-{}", String::from_utf8_lossy(s)),
            Resp::Int(i) => format!(":{i}"),
            Resp::Bulk(b) => {
                if b.len() <= 24 && b.iter().all(|c| c.is_ascii_graphic() || *c == b' ') {
                    format!("${}", String::from_utf8_lossy(b))
                } else {
                    format!("$<{}B>", b.len())
                }
            }
            Resp::NilBulk => "nil".into(),
            Resp::Array(a) => format!("[{}]", a.iter().map(|x| x.brief()).collect::<Vec<_>>().join(",")),
        }
    }
}

fn read_line(buf: &[u8], at: usize) -> Option<(&[u8], usize)> {
    let mut i = at;
    while i + 1 < buf.len() {
        if buf[i] == b'\r' && buf[i + 1] == b'\n' {
            return Some((&buf[at..i], i + 2));
        }
        i += 1;
    }
    None
}

/// Parse one complete client command from the front of `buf`.
/// `Ok(None)` = incomplete; `Err` = protocol the fake server does not speak.
pub fn parse_command(buf: &[u8]) -> Result<Option<(Vec<Vec<u8>>, usize)>, String> {
    if buf.is_empty() {
        return Ok(None);
    }
    if buf[0] != b'*' {
        return Err(format!("client sent a non-array frame starting with {:?}", buf[0] as char));
    }
    let Some((l, mut at)) = read_line(buf, 1) else { return Ok(None) };
    let n: usize = std::str::from_utf8(l).ok().and_then(|s| s.parse().ok()).ok_or("bad array length")?;
    let mut out = Vec::with_capacity(n);
    for _ in 0..n {
        if at >= buf.len() {
            return Ok(None);
        }
        if buf[at] != b'$' {
            return Err("client command element is not a bulk string".into());
        }
        let Some((l, nat)) = read_line(buf, at + 1) else { return Ok(None) };
        let len: usize = std::str::from_utf8(l).ok().and_then(|s| s.parse().ok()).ok_or("bad bulk length")?;
        if buf.len() < nat + len + 2 {
            return Ok(None);
        }
        out.push(buf[nat..nat + len].to_vec());
        if &buf[nat + len..nat + len + 2] != b"\r\n" {
            return Err("bulk string not terminated by CRLF".into());
        }
        at = nat + len + 2;
    }
    Ok(Some((out, at)))
}

#[cfg(test)]
mod tests {
    use super::*;
    #[test]
    fn roundtrip() {
        let b = b"*3\r\n$3\r\nSET\r\n$1\r\nk\r\n$2\r\n\r\n\r\n";
        let (c, n) = parse_command(b).unwrap().unwrap();
        assert_eq!(n, b.len());
        assert_eq!(c, vec![b"SET".to_vec(), b"k".to_vec(), b"\r\n".to_vec()]);
        assert!(parse_command(&b[..b.len() - 1]).unwrap().is_none());
        assert_eq!(Resp::Array(vec![Resp::Int(1), Resp::NilBulk, Resp::Bulk(b"a".to_vec())]).to_bytes(), b"*3\r\n:1\r\n$-1\r\n$1\r\na\r\n");
    }
}
