//! mini-Lua: an interpreter for the Lua 5.1 subset used by the six
//! `redis_leader_lease_adapter_scripts/*.lua` scripts.
//!
//! Anything outside the subset (unknown syntax, unknown global, unknown library
//! function) is a *machinery* error (`panic!` with a `mini-lua:` prefix), never a
//! guess. Run-time errors that real Lua would raise inside a script (comparing a
//! number with nil, calling `redis.call` with a failing command, ...) are
//! returned as `Err(LuaError)` and turned into an error reply by the caller, as
//! Redis does.

use std::{
    cell::RefCell,
    collections::{BTreeMap, HashMap},
    rc::Rc,
};

// ---------------------------------------------------------------------------
// values
// ---------------------------------------------------------------------------

#[derive(Default, Debug)]
pub struct Table {
    pub arr: Vec<Val>,
    pub hash: BTreeMap<Vec<u8>, Val>,
}

#[derive(Clone, Debug)]
pub enum Val {
    Nil,
    Bool(bool),
    Num(f64),
    Str(Rc<Vec<u8>>),
    Table(Rc<RefCell<Table>>),
    /// Library function, by qualified name (`tonumber`, `redis.call`, ...).
    Builtin(&'static str),
    /// Library namespace (`redis`, `table`).
    Namespace(&'static str),
}

impl Val {
    pub fn str(b: impl Into<Vec<u8>>) -> Val {
        Val::Str(Rc::new(b.into()))
    }
    pub fn table(arr: Vec<Val>) -> Val {
        Val::Table(Rc::new(RefCell::new(Table { arr, hash: BTreeMap::new() })))
    }
    pub fn truthy(&self) -> bool {
        !matches!(self, Val::Nil | Val::Bool(false))
    }
    pub fn type_name(&self) -> &'static str {
        match self {
            Val::Nil => "nil",
            Val::Bool(_) => "boolean",
            Val::Num(_) => "number",
            Val::Str(_) => "string",
            Val::Table(_) => "table",
            Val::Builtin(_) => "function",
            Val::Namespace(_) => "table",
        }
    }
}

#[derive(Debug, Clone)]
pub struct LuaError(pub String);

type R<T> = Result<T, LuaError>;

fn err<T>(m: impl Into<String>) -> R<T> {
    Err(LuaError(m.into()))
}

fn machinery(msg: String) -> ! {
    panic!("mini-lua: {msg}");
}

/// Lua 5.1 `tostring` for numbers (`%.14g`); only integral values are supported.
pub fn fmt_num(n: f64) -> String {
    if n.is_finite() && n.fract() == 0.0 && n.abs() < 1e15 {
        format!("{}", n as i64)
    } else {
        machinery(format!("number formatting of non-integral value {n} is outside the supported subset"))
    }
}

/// `tonumber` on a string (decimal integers/floats and 0x hex integers).
pub fn str_to_num(s: &[u8]) -> Option<f64> {
    let s = std::str::from_utf8(s).ok()?.trim_matches(|c: char| c == ' ' || c == '\t' || c == '\n' || c == '\r');
    if s.is_empty() {
        return None;
    }
    let (neg, body) = match s.as_bytes()[0] {
        b'-' => (true, &s[1..]),
        b'+' => (false, &s[1..]),
        _ => (false, s),
    };
    if let Some(h) = body.strip_prefix("0x").or_else(|| body.strip_prefix("0X")) {
        if h.is_empty() || !h.bytes().all(|c| c.is_ascii_hexdigit()) {
            return None;
        }
        let v = u64::from_str_radix(h, 16).ok()? as f64;
        return Some(if neg { -v } else { v });
    }
    // [digits][.digits][e[+-]digits], at least one digit in the mantissa
    let b = body.as_bytes();
    let mut i = 0;
    let mut digits = 0;
    while i < b.len() && b[i].is_ascii_digit() {
        i += 1;
        digits += 1;
    }
    if i < b.len() && b[i] == b'.' {
        i += 1;
        while i < b.len() && b[i].is_ascii_digit() {
            i += 1;
            digits += 1;
        }
    }
    if digits == 0 {
        return None;
    }
    if i < b.len() && (b[i] == b'e' || b[i] == b'E') {
        i += 1;
        if i < b.len() && (b[i] == b'+' || b[i] == b'-') {
            i += 1;
        }
        let st = i;
        while i < b.len() && b[i].is_ascii_digit() {
            i += 1;
        }
        if st == i {
            return None;
        }
    }
    if i != b.len() {
        return None;
    }
    let v: f64 = body.parse().ok()?;
    Some(if neg { -v } else { v })
}

// ---------------------------------------------------------------------------
// lexer
// ---------------------------------------------------------------------------

#[derive(Clone, Debug, PartialEq)]
enum Tok {
    Name(String),
    Num(f64),
    Str(Vec<u8>),
    Kw(&'static str),
    Sym(&'static str),
    Eof,
}

const KEYWORDS: &[&str] = &[
    "and", "break", "do", "else", "elseif", "end", "false", "for", "function", "if", "in", "local", "nil", "not", "or",
    "repeat", "return", "then", "true", "until", "while",
];

const SYMS: &[&str] = &[
    "...", "..", "==", "~=", "<=", ">=", "+", "-", "*", "/", "%", "^", "#", "<", ">", "=", "(", ")", "{", "}", "[", "]",
    ";", ":", ",", ".",
];

fn lex(src: &str) -> Vec<(Tok, usize)> {
    let b = src.as_bytes();
    let mut i = 0;
    let mut line = 1;
    let mut out = vec![];
    while i < b.len() {
        let c = b[i];
        if c == b'\n' {
            line += 1;
            i += 1;
            continue;
        }
        if c == b' ' || c == b'\t' || c == b'\r' {
            i += 1;
            continue;
        }
        if c == b'-' && i + 1 < b.len() && b[i + 1] == b'-' {
            if src[i + 2..].starts_with("[[") || src[i + 2..].starts_with("[=") {
                machinery(format!("line {line}: block comments are outside the supported subset"));
            }
            while i < b.len() && b[i] != b'\n' {
                i += 1;
            }
            continue;
        }
        if c.is_ascii_alphabetic() || c == b'_' {
            let st = i;
            while i < b.len() && (b[i].is_ascii_alphanumeric() || b[i] == b'_') {
                i += 1;
            }
            let w = &src[st..i];
            if let Some(k) = KEYWORDS.iter().find(|k| **k == w) {
                out.push((Tok::Kw(k), line));
            } else {
                out.push((Tok::Name(w.to_string()), line));
            }
            continue;
        }
        if c.is_ascii_digit() {
            let st = i;
            while i < b.len() && (b[i].is_ascii_alphanumeric() || b[i] == b'.') {
                i += 1;
            }
            let w = &src[st..i];
            match str_to_num(w.as_bytes()) {
                Some(n) => out.push((Tok::Num(n), line)),
                None => machinery(format!("line {line}: malformed number {w:?}")),
            }
            continue;
        }
        if c == b'"' || c == b'\'' {
            let q = c;
            i += 1;
            let mut s = vec![];
            loop {
                if i >= b.len() || b[i] == b'\n' {
                    machinery(format!("line {line}: unfinished string"));
                }
                let d = b[i];
                if d == q {
                    i += 1;
                    break;
                }
                if d == b'\\' {
                    i += 1;
                    let e = *b.get(i).unwrap_or_else(|| machinery(format!("line {line}: unfinished escape")));
                    match e {
                        b'n' => s.push(b'\n'),
                        b't' => s.push(b'\t'),
                        b'r' => s.push(b'\r'),
                        b'\\' => s.push(b'\\'),
                        b'"' => s.push(b'"'),
                        b'\'' => s.push(b'\''),
                        b'0'..=b'9' => {
                            let mut v = 0u32;
                            let mut k = 0;
                            while k < 3 && i < b.len() && b[i].is_ascii_digit() {
                                v = v * 10 + (b[i] - b'0') as u32;
                                i += 1;
                                k += 1;
                            }
                            if v > 255 {
                                machinery(format!("line {line}: escape too large"));
                            }
                            s.push(v as u8);
                            continue;
                        }
                        _ => machinery(format!("line {line}: escape \\{} is outside the supported subset", e as char)),
                    }
                    i += 1;
                    continue;
                }
                s.push(d);
                i += 1;
            }
            out.push((Tok::Str(s), line));
            continue;
        }
        if c == b'[' && i + 1 < b.len() && (b[i + 1] == b'[' || b[i + 1] == b'=') {
            machinery(format!("line {line}: long strings are outside the supported subset"));
        }
        let mut matched = false;
        for s in SYMS {
            if src[i..].starts_with(s) {
                out.push((Tok::Sym(s), line));
                i += s.len();
                matched = true;
                break;
            }
        }
        if !matched {
            machinery(format!("line {line}: unexpected character {:?}", c as char));
        }
    }
    out.push((Tok::Eof, line));
    out
}

// ---------------------------------------------------------------------------
// AST + parser
// ---------------------------------------------------------------------------

#[derive(Debug, Clone)]
enum Expr {
    Nil,
    True,
    False,
    Num(f64),
    Str(Vec<u8>),
    Name(String),
    Index(Box<Expr>, Box<Expr>),
    Call(Box<Expr>, Vec<Expr>),
    Bin(&'static str, Box<Expr>, Box<Expr>),
    Un(&'static str, Box<Expr>),
    /// positional items and `name = value` fields
    Table(Vec<Expr>, Vec<(String, Expr)>),
}

#[derive(Debug, Clone)]
enum Stmt {
    Local(Vec<String>, Vec<Expr>),
    Assign(Vec<Expr>, Vec<Expr>),
    Call(Expr),
    If(Vec<(Expr, Vec<Stmt>)>, Option<Vec<Stmt>>),
    NumFor(String, Expr, Expr, Option<Expr>, Vec<Stmt>),
    /// `for a, b in ipairs(e) do`
    IpairsFor(Vec<String>, Expr, Vec<Stmt>),
    While(Expr, Vec<Stmt>),
    Do(Vec<Stmt>),
    Break,
    Return(Vec<Expr>),
}

#[derive(Debug, Clone)]
pub struct Script {
    body: Vec<Stmt>,
}

struct Parser {
    t: Vec<(Tok, usize)>,
    p: usize,
}

impl Parser {
    fn peek(&self) -> &Tok {
        &self.t[self.p].0
    }
    fn line(&self) -> usize {
        self.t[self.p].1
    }
    fn next(&mut self) -> Tok {
        let t = self.t[self.p].0.clone();
        if self.p + 1 < self.t.len() {
            self.p += 1;
        }
        t
    }
    fn fail(&self, m: &str) -> ! {
        machinery(format!("line {}: {m} (at {:?})", self.line(), self.peek()))
    }
    fn is_sym(&self, s: &str) -> bool {
        matches!(self.peek(), Tok::Sym(x) if *x == s)
    }
    fn is_kw(&self, s: &str) -> bool {
        matches!(self.peek(), Tok::Kw(x) if *x == s)
    }
    fn eat_sym(&mut self, s: &str) -> bool {
        if self.is_sym(s) {
            self.next();
            true
        } else {
            false
        }
    }
    fn eat_kw(&mut self, s: &str) -> bool {
        if self.is_kw(s) {
            self.next();
            true
        } else {
            false
        }
    }
    fn expect_sym(&mut self, s: &str) {
        if !self.eat_sym(s) {
            self.fail(&format!("expected '{s}'"));
        }
    }
    fn expect_kw(&mut self, s: &str) {
        if !self.eat_kw(s) {
            self.fail(&format!("expected '{s}'"));
        }
    }
    fn name(&mut self) -> String {
        match self.next() {
            Tok::Name(n) => n,
            _ => {
                self.p -= 1;
                self.fail("expected a name")
            }
        }
    }

    fn block_end(&self) -> bool {
        matches!(self.peek(), Tok::Eof) || self.is_kw("end") || self.is_kw("else") || self.is_kw("elseif") || self.is_kw("until")
    }

    fn block(&mut self) -> Vec<Stmt> {
        let mut out = vec![];
        while !self.block_end() {
            if self.eat_sym(";") {
                continue;
            }
            let s = self.stmt();
            let last = matches!(s, Stmt::Return(_) | Stmt::Break);
            out.push(s);
            if last {
                self.eat_sym(";");
                if !self.block_end() {
                    self.fail("statement after return/break");
                }
            }
        }
        out
    }

    fn exprlist(&mut self) -> Vec<Expr> {
        let mut v = vec![self.expr()];
        while self.eat_sym(",") {
            v.push(self.expr());
        }
        v
    }

    fn stmt(&mut self) -> Stmt {
        if self.eat_kw("local") {
            if self.is_kw("function") {
                self.fail("function definitions are outside the supported subset");
            }
            let mut names = vec![self.name()];
            while self.eat_sym(",") {
                names.push(self.name());
            }
            let exprs = if self.eat_sym("=") { self.exprlist() } else { vec![] };
            return Stmt::Local(names, exprs);
        }
        if self.eat_kw("if") {
            let mut arms = vec![];
            let c = self.expr();
            self.expect_kw("then");
            arms.push((c, self.block()));
            let mut els = None;
            loop {
                if self.eat_kw("elseif") {
                    let c = self.expr();
                    self.expect_kw("then");
                    arms.push((c, self.block()));
                } else if self.eat_kw("else") {
                    els = Some(self.block());
                    self.expect_kw("end");
                    break;
                } else {
                    self.expect_kw("end");
                    break;
                }
            }
            return Stmt::If(arms, els);
        }
        if self.eat_kw("for") {
            let first = self.name();
            if self.eat_sym("=") {
                let a = self.expr();
                self.expect_sym(",");
                let b = self.expr();
                let c = if self.eat_sym(",") { Some(self.expr()) } else { None };
                self.expect_kw("do");
                let body = self.block();
                self.expect_kw("end");
                return Stmt::NumFor(first, a, b, c, body);
            }
            let mut names = vec![first];
            while self.eat_sym(",") {
                names.push(self.name());
            }
            self.expect_kw("in");
            let e = self.expr();
            let arg = match e {
                Expr::Call(f, mut args) if matches!(&*f, Expr::Name(n) if n == "ipairs") && args.len() == 1 => args.remove(0),
                _ => self.fail("only `for ... in ipairs(x)` generic loops are in the supported subset"),
            };
            if names.len() > 2 {
                self.fail("ipairs loop with more than two variables");
            }
            self.expect_kw("do");
            let body = self.block();
            self.expect_kw("end");
            return Stmt::IpairsFor(names, arg, body);
        }
        if self.eat_kw("while") {
            let c = self.expr();
            self.expect_kw("do");
            let body = self.block();
            self.expect_kw("end");
            return Stmt::While(c, body);
        }
        if self.eat_kw("do") {
            let body = self.block();
            self.expect_kw("end");
            return Stmt::Do(body);
        }
        if self.eat_kw("break") {
            return Stmt::Break;
        }
        if self.eat_kw("return") {
            if self.block_end() || self.is_sym(";") {
                return Stmt::Return(vec![]);
            }
            return Stmt::Return(self.exprlist());
        }
        if self.is_kw("function") || self.is_kw("repeat") {
            self.fail("statement kind is outside the supported subset");
        }
        // assignment or call
        let e = self.suffixed();
        if self.is_sym("=") || self.is_sym(",") {
            let mut targets = vec![e];
            while self.eat_sym(",") {
                targets.push(self.suffixed());
            }
            self.expect_sym("=");
            let exprs = self.exprlist();
            for t in &targets {
                if !matches!(t, Expr::Name(_) | Expr::Index(_, _)) {
                    self.fail("cannot assign to this expression");
                }
            }
            return Stmt::Assign(targets, exprs);
        }
        if matches!(e, Expr::Call(_, _)) {
            return Stmt::Call(e);
        }
        self.fail("expected a statement")
    }

    fn primary(&mut self) -> Expr {
        match self.next() {
            Tok::Name(n) => Expr::Name(n),
            Tok::Sym("(") => {
                let e = self.expr();
                self.expect_sym(")");
                // parentheses truncate multi-values; all our functions are single-valued
                e
            }
            _ => {
                self.p -= 1;
                self.fail("unexpected token in expression")
            }
        }
    }

    fn suffixed(&mut self) -> Expr {
        let mut e = self.primary();
        loop {
            if self.eat_sym(".") {
                let n = self.name();
                e = Expr::Index(Box::new(e), Box::new(Expr::Str(n.into_bytes())));
            } else if self.eat_sym("[") {
                let k = self.expr();
                self.expect_sym("]");
                e = Expr::Index(Box::new(e), Box::new(k));
            } else if self.eat_sym("(") {
                let args = if self.is_sym(")") { vec![] } else { self.exprlist() };
                self.expect_sym(")");
                e = Expr::Call(Box::new(e), args);
            } else if self.is_sym(":") {
                self.fail("method calls are outside the supported subset");
            } else if matches!(self.peek(), Tok::Str(_)) || self.is_sym("{") {
                self.fail("call without parentheses is outside the supported subset");
            } else {
                return e;
            }
        }
    }

    fn simple(&mut self) -> Expr {
        match self.peek().clone() {
            Tok::Num(n) => {
                self.next();
                Expr::Num(n)
            }
            Tok::Str(s) => {
                self.next();
                Expr::Str(s)
            }
            Tok::Kw("nil") => {
                self.next();
                Expr::Nil
            }
            Tok::Kw("true") => {
                self.next();
                Expr::True
            }
            Tok::Kw("false") => {
                self.next();
                Expr::False
            }
            Tok::Kw("function") => self.fail("function expressions are outside the supported subset"),
            Tok::Sym("...") => self.fail("varargs are outside the supported subset"),
            Tok::Sym("{") => {
                self.next();
                let mut pos = vec![];
                let mut named = vec![];
                while !self.is_sym("}") {
                    if self.is_sym("[") {
                        self.fail("`[k] = v` table fields are outside the supported subset");
                    }
                    let is_named = matches!(self.peek(), Tok::Name(_)) && matches!(&self.t[self.p + 1].0, Tok::Sym("="));
                    if is_named {
                        let n = self.name();
                        self.expect_sym("=");
                        named.push((n, self.expr()));
                    } else {
                        pos.push(self.expr());
                    }
                    if !(self.eat_sym(",") || self.eat_sym(";")) {
                        break;
                    }
                }
                self.expect_sym("}");
                Expr::Table(pos, named)
            }
            _ => self.suffixed(),
        }
    }

    fn expr(&mut self) -> Expr {
        self.subexpr(0)
    }

    // Lua 5.1 precedence table: (left, right)
    fn binprio(op: &str) -> Option<(u8, u8)> {
        Some(match op {
            "or" => (1, 1),
            "and" => (2, 2),
            "<" | ">" | "<=" | ">=" | "~=" | "==" => (3, 3),
            ".." => (5, 4),
            "+" | "-" => (6, 6),
            "*" | "/" | "%" => (7, 7),
            "^" => (10, 9),
            _ => return None,
        })
    }

    fn subexpr(&mut self, limit: u8) -> Expr {
        const UNARY: u8 = 8;
        let mut left = if self.eat_kw("not") {
            Expr::Un("not", Box::new(self.subexpr(UNARY)))
        } else if self.eat_sym("-") {
            Expr::Un("-", Box::new(self.subexpr(UNARY)))
        } else if self.eat_sym("#") {
            Expr::Un("#", Box::new(self.subexpr(UNARY)))
        } else {
            self.simple()
        };
        loop {
            let op: &'static str = match self.peek() {
                Tok::Sym(s) => s,
                Tok::Kw(k) if *k == "and" || *k == "or" => k,
                _ => break,
            };
            let Some((l, r)) = Self::binprio(op) else { break };
            if l <= limit {
                break;
            }
            self.next();
            let right = self.subexpr(r);
            left = Expr::Bin(op, Box::new(left), Box::new(right));
        }
        left
    }
}

pub fn parse(src: &str) -> Script {
    let mut p = Parser { t: lex(src), p: 0 };
    let body = p.block();
    if !matches!(p.peek(), Tok::Eof) {
        p.fail("unexpected token at top level");
    }
    Script { body }
}

// ---------------------------------------------------------------------------
// interpreter
// ---------------------------------------------------------------------------

/// What the script may call: the Redis command executor.
pub trait Host {
    /// Execute a Redis command (args already converted to byte strings) and return
    /// the reply already converted to a Lua value, or a command error.
    fn redis_call(&mut self, args: Vec<Vec<u8>>) -> Result<Val, String>;
}

enum Flow {
    Normal,
    Break,
    Return(Val),
}

pub struct Interp<'h> {
    scopes: Vec<HashMap<String, Val>>,
    globals: HashMap<String, Val>,
    host: &'h mut dyn Host,
    steps: u64,
}

const STEP_LIMIT: u64 = 5_000_000;

impl<'h> Interp<'h> {
    pub fn new(host: &'h mut dyn Host, keys: Vec<Vec<u8>>, argv: Vec<Vec<u8>>) -> Self {
        let mut globals = HashMap::new();
        globals.insert("KEYS".to_string(), Val::table(keys.into_iter().map(Val::str).collect()));
        globals.insert("ARGV".to_string(), Val::table(argv.into_iter().map(Val::str).collect()));
        globals.insert("redis".to_string(), Val::Namespace("redis"));
        globals.insert("table".to_string(), Val::Namespace("table"));
        for f in ["tonumber", "tostring", "ipairs", "type"] {
            globals.insert(f.to_string(), Val::Builtin(f));
        }
        Interp { scopes: vec![HashMap::new()], globals, host, steps: 0 }
    }

    /// Run the script; the value of the top-level `return` (Nil when absent).
    pub fn run(&mut self, s: &Script) -> R<Val> {
        match self.exec_block(&s.body)? {
            Flow::Return(v) => Ok(v),
            Flow::Normal => Ok(Val::Nil),
            Flow::Break => machinery("break outside a loop".into()),
        }
    }

    fn tick(&mut self) {
        self.steps += 1;
        if self.steps > STEP_LIMIT {
            machinery("script exceeded the step limit (runaway loop?)".into());
        }
    }

    fn lookup(&self, n: &str) -> Val {
        for s in self.scopes.iter().rev() {
            if let Some(v) = s.get(n) {
                return v.clone();
            }
        }
        match self.globals.get(n) {
            Some(v) => v.clone(),
            None => machinery(format!("access to unknown global `{n}` (outside the supported subset)")),
        }
    }

    fn assign_name(&mut self, n: &str, v: Val) {
        for s in self.scopes.iter_mut().rev() {
            if let Some(slot) = s.get_mut(n) {
                *slot = v;
                return;
            }
        }
        machinery(format!("assignment to global `{n}` (Redis forbids creating globals)"));
    }

    fn exec_block(&mut self, b: &[Stmt]) -> R<Flow> {
        self.scopes.push(HashMap::new());
        let r = self.exec_stmts(b);
        self.scopes.pop();
        r
    }

    fn exec_stmts(&mut self, b: &[Stmt]) -> R<Flow> {
        for s in b {
            self.tick();
            match s {
                Stmt::Local(names, exprs) => {
                    let mut vals = vec![];
                    for e in exprs {
                        vals.push(self.eval(e)?);
                    }
                    for (i, n) in names.iter().enumerate() {
                        let v = vals.get(i).cloned().unwrap_or(Val::Nil);
                        self.scopes.last_mut().unwrap().insert(n.clone(), v);
                    }
                }
                Stmt::Assign(targets, exprs) => {
                    let mut vals = vec![];
                    for e in exprs {
                        vals.push(self.eval(e)?);
                    }
                    for (i, t) in targets.iter().enumerate() {
                        let v = vals.get(i).cloned().unwrap_or(Val::Nil);
                        match t {
                            Expr::Name(n) => self.assign_name(n, v),
                            Expr::Index(o, k) => {
                                let o = self.eval(o)?;
                                let k = self.eval(k)?;
                                self.set_index(&o, &k, v)?;
                            }
                            _ => unreachable!(),
                        }
                    }
                }
                Stmt::Call(e) => {
                    self.eval(e)?;
                }
                Stmt::If(arms, els) => {
                    let mut done = false;
                    for (c, body) in arms {
                        if self.eval(c)?.truthy() {
                            match self.exec_block(body)? {
                                Flow::Normal => {}
                                f => return Ok(f),
                            }
                            done = true;
                            break;
                        }
                    }
                    if !done {
                        if let Some(body) = els {
                            match self.exec_block(body)? {
                                Flow::Normal => {}
                                f => return Ok(f),
                            }
                        }
                    }
                }
                Stmt::NumFor(var, a, b, c, body) => {
                    let a = Self::arith_operand(&self.eval(a)?, "'for' initial value")?;
                    let lim = Self::arith_operand(&self.eval(b)?, "'for' limit")?;
                    let step = match c {
                        Some(c) => Self::arith_operand(&self.eval(c)?, "'for' step")?,
                        None => 1.0,
                    };
                    if step == 0.0 {
                        machinery("numeric for with step 0".into());
                    }
                    let mut i = a;
                    while (step > 0.0 && i <= lim) || (step < 0.0 && i >= lim) {
                        self.tick();
                        self.scopes.push(HashMap::from([(var.clone(), Val::Num(i))]));
                        let f = self.exec_stmts(body);
                        self.scopes.pop();
                        match f? {
                            Flow::Normal => {}
                            Flow::Break => break,
                            f @ Flow::Return(_) => return Ok(f),
                        }
                        i += step;
                    }
                }
                Stmt::IpairsFor(names, e, body) => {
                    let t = self.eval(e)?;
                    let Val::Table(t) = t else {
                        return err(format!("bad argument #1 to 'ipairs' (table expected, got {})", t.type_name()));
                    };
                    let mut i = 0usize;
                    loop {
                        self.tick();
                        let item = {
                            let tb = t.borrow();
                            match tb.arr.get(i) {
                                Some(Val::Nil) | None => break,
                                Some(v) => v.clone(),
                            }
                        };
                        let mut sc = HashMap::new();
                        sc.insert(names[0].clone(), Val::Num((i + 1) as f64));
                        if let Some(n) = names.get(1) {
                            sc.insert(n.clone(), item);
                        }
                        self.scopes.push(sc);
                        let f = self.exec_stmts(body);
                        self.scopes.pop();
                        match f? {
                            Flow::Normal => {}
                            Flow::Break => break,
                            f @ Flow::Return(_) => return Ok(f),
                        }
                        i += 1;
                    }
                }
                Stmt::While(c, body) => {
                    while self.eval(c)?.truthy() {
                        self.tick();
                        match self.exec_block(body)? {
                            Flow::Normal => {}
                            Flow::Break => break,
                            f @ Flow::Return(_) => return Ok(f),
                        }
                    }
                }
                Stmt::Do(body) => match self.exec_block(body)? {
                    Flow::Normal => {}
                    f => return Ok(f),
                },
                Stmt::Break => return Ok(Flow::Break),
                Stmt::Return(es) => {
                    if es.len() > 1 {
                        machinery("multiple return values are outside the supported subset".into());
                    }
                    let v = match es.first() {
                        Some(e) => self.eval(e)?,
                        None => Val::Nil,
                    };
                    return Ok(Flow::Return(v));
                }
            }
        }
        Ok(Flow::Normal)
    }

    fn arith_operand(v: &Val, what: &str) -> R<f64> {
        match v {
            Val::Num(n) => Ok(*n),
            Val::Str(s) => match str_to_num(s) {
                Some(n) => Ok(n),
                None => err(format!("attempt to perform arithmetic on a string value ({what})")),
            },
            o => err(format!("attempt to perform arithmetic on a {} value ({what})", o.type_name())),
        }
    }

    fn index(&self, o: &Val, k: &Val) -> R<Val> {
        match o {
            Val::Table(t) => {
                let t = t.borrow();
                match k {
                    Val::Num(n) => {
                        if n.fract() == 0.0 && *n >= 1.0 && (*n as usize) <= t.arr.len() {
                            Ok(t.arr[*n as usize - 1].clone())
                        } else {
                            Ok(Val::Nil)
                        }
                    }
                    Val::Str(s) => Ok(t.hash.get(&**s).cloned().unwrap_or(Val::Nil)),
                    Val::Nil => Ok(Val::Nil),
                    o => machinery(format!("table key of type {} is outside the supported subset", o.type_name())),
                }
            }
            Val::Namespace(ns) => {
                let Val::Str(s) = k else { machinery(format!("non-string index into library `{ns}`")) };
                let name = String::from_utf8_lossy(s).to_string();
                let q: &'static str = match (*ns, name.as_str()) {
                    ("redis", "call") => "redis.call",
                    ("redis", "pcall") => "redis.pcall",
                    ("redis", "error_reply") => "redis.error_reply",
                    ("redis", "status_reply") => "redis.status_reply",
                    ("table", "insert") => "table.insert",
                    _ => machinery(format!("library function `{ns}.{name}` is outside the supported subset")),
                };
                Ok(Val::Builtin(q))
            }
            Val::Str(_) => machinery("indexing a string (string methods) is outside the supported subset".into()),
            o => err(format!("attempt to index a {} value", o.type_name())),
        }
    }

    fn set_index(&mut self, o: &Val, k: &Val, v: Val) -> R<()> {
        let Val::Table(t) = o else {
            return err(format!("attempt to index a {} value", o.type_name()));
        };
        let mut t = t.borrow_mut();
        match k {
            Val::Num(n) if n.fract() == 0.0 && *n >= 1.0 => {
                let i = *n as usize;
                if i <= t.arr.len() {
                    if matches!(v, Val::Nil) && i != t.arr.len() {
                        machinery("storing nil inside an array is outside the supported subset".into());
                    }
                    if matches!(v, Val::Nil) {
                        t.arr.pop();
                    } else {
                        t.arr[i - 1] = v;
                    }
                } else if i == t.arr.len() + 1 {
                    if !matches!(v, Val::Nil) {
                        t.arr.push(v);
                    }
                } else {
                    machinery("sparse array assignment is outside the supported subset".into());
                }
                Ok(())
            }
            Val::Str(s) => {
                if matches!(v, Val::Nil) {
                    t.hash.remove(&**s);
                } else {
                    t.hash.insert((**s).clone(), v);
                }
                Ok(())
            }
            o => machinery(format!("table key {o:?} is outside the supported subset")),
        }
    }

    fn raw_eq(a: &Val, b: &Val) -> bool {
        match (a, b) {
            (Val::Nil, Val::Nil) => true,
            (Val::Bool(x), Val::Bool(y)) => x == y,
            (Val::Num(x), Val::Num(y)) => x == y,
            (Val::Str(x), Val::Str(y)) => x == y,
            (Val::Table(x), Val::Table(y)) => Rc::ptr_eq(x, y),
            (Val::Builtin(x), Val::Builtin(y)) => x == y,
            (Val::Namespace(x), Val::Namespace(y)) => x == y,
            _ => false,
        }
    }

    fn compare_lt(a: &Val, b: &Val) -> R<bool> {
        match (a, b) {
            (Val::Num(x), Val::Num(y)) => Ok(x < y),
            (Val::Str(x), Val::Str(y)) => Ok(x < y),
            _ => {
                if a.type_name() == b.type_name() {
                    err(format!("attempt to compare two {} values", a.type_name()))
                } else {
                    err(format!("attempt to compare {} with {}", a.type_name(), b.type_name()))
                }
            }
        }
    }

    fn compare_le(a: &Val, b: &Val) -> R<bool> {
        match (a, b) {
            (Val::Num(x), Val::Num(y)) => Ok(x <= y),
            (Val::Str(x), Val::Str(y)) => Ok(x <= y),
            _ => Self::compare_lt(a, b),
        }
    }

    fn concat_operand(v: &Val) -> R<Vec<u8>> {
        match v {
            Val::Str(s) => Ok((**s).clone()),
            Val::Num(n) => Ok(fmt_num(*n).into_bytes()),
            o => err(format!("attempt to concatenate a {} value", o.type_name())),
        }
    }

    fn eval(&mut self, e: &Expr) -> R<Val> {
        self.tick();
        Ok(match e {
            Expr::Nil => Val::Nil,
            Expr::True => Val::Bool(true),
            Expr::False => Val::Bool(false),
            Expr::Num(n) => Val::Num(*n),
            Expr::Str(s) => Val::str(s.clone()),
            Expr::Name(n) => self.lookup(n),
            Expr::Index(o, k) => {
                let o = self.eval(o)?;
                let k = self.eval(k)?;
                self.index(&o, &k)?
            }
            Expr::Table(pos, named) => {
                let mut arr = vec![];
                for p in pos {
                    let v = self.eval(p)?;
                    arr.push(v);
                }
                // trailing nils shorten the border; an inner nil makes `#` ambiguous in Lua
                while matches!(arr.last(), Some(Val::Nil)) {
                    arr.pop();
                }
                if arr.iter().any(|v| matches!(v, Val::Nil)) {
                    machinery("table constructor with an inner nil is outside the supported subset".into());
                }
                let mut hash = BTreeMap::new();
                for (k, v) in named {
                    let v = self.eval(v)?;
                    if !matches!(v, Val::Nil) {
                        hash.insert(k.clone().into_bytes(), v);
                    }
                }
                Val::Table(Rc::new(RefCell::new(Table { arr, hash })))
            }
            Expr::Un(op, a) => {
                let a = self.eval(a)?;
                match *op {
                    "not" => Val::Bool(!a.truthy()),
                    "-" => Val::Num(-Self::arith_operand(&a, "unary minus")?),
                    "#" => match &a {
                        Val::Str(s) => Val::Num(s.len() as f64),
                        Val::Table(t) => Val::Num(t.borrow().arr.len() as f64),
                        o => return err(format!("attempt to get length of a {} value", o.type_name())),
                    },
                    _ => unreachable!(),
                }
            }
            Expr::Bin(op, l, r) => {
                if *op == "and" {
                    let l = self.eval(l)?;
                    return if l.truthy() { self.eval(r) } else { Ok(l) };
                }
                if *op == "or" {
                    let l = self.eval(l)?;
                    return if l.truthy() { Ok(l) } else { self.eval(r) };
                }
                let a = self.eval(l)?;
                let b = self.eval(r)?;
                match *op {
                    "==" => Val::Bool(Self::raw_eq(&a, &b)),
                    "~=" => Val::Bool(!Self::raw_eq(&a, &b)),
                    "<" => Val::Bool(Self::compare_lt(&a, &b)?),
                    ">" => Val::Bool(Self::compare_lt(&b, &a)?),
                    "<=" => Val::Bool(Self::compare_le(&a, &b)?),
                    ">=" => Val::Bool(Self::compare_le(&b, &a)?),
                    ".." => {
                        let mut x = Self::concat_operand(&a)?;
                        x.extend(Self::concat_operand(&b)?);
                        Val::str(x)
                    }
                    "+" | "-" | "*" | "/" | "%" | "^" => {
                        let x = Self::arith_operand(&a, "binary operator")?;
                        let y = Self::arith_operand(&b, "binary operator")?;
                        Val::Num(match *op {
                            "+" => x + y,
                            "-" => x - y,
                            "*" => x * y,
                            "/" => x / y,
                            "%" => x - (x / y).floor() * y,
                            "^" => x.powf(y),
                            _ => unreachable!(),
                        })
                    }
                    _ => unreachable!(),
                }
            }
            Expr::Call(f, args) => {
                let fv = self.eval(f)?;
                let mut av = vec![];
                for a in args {
                    av.push(self.eval(a)?);
                }
                match fv {
                    Val::Builtin(name) => self.call_builtin(name, av)?,
                    o => return err(format!("attempt to call a {} value", o.type_name())),
                }
            }
        })
    }

    fn call_builtin(&mut self, name: &'static str, args: Vec<Val>) -> R<Val> {
        match name {
            "tonumber" => {
                if args.len() > 1 {
                    machinery("tonumber with a base is outside the supported subset".into());
                }
                Ok(match args.first() {
                    Some(Val::Num(n)) => Val::Num(*n),
                    Some(Val::Str(s)) => str_to_num(s).map(Val::Num).unwrap_or(Val::Nil),
                    Some(_) => Val::Nil,
                    None => return err("bad argument #1 to 'tonumber' (value expected)"),
                })
            }
            "tostring" => Ok(match args.first() {
                Some(Val::Num(n)) => Val::str(fmt_num(*n)),
                Some(Val::Str(s)) => Val::Str(s.clone()),
                Some(Val::Nil) => Val::str("nil"),
                Some(Val::Bool(b)) => Val::str(if *b { "true" } else { "false" }),
                Some(o) => machinery(format!("tostring of a {} is outside the supported subset", o.type_name())),
                None => return err("bad argument #1 to 'tostring' (value expected)"),
            }),
            "type" => Ok(match args.first() {
                Some(v) => Val::str(v.type_name()),
                None => return err("bad argument #1 to 'type' (value expected)"),
            }),
            "ipairs" => machinery("ipairs outside a generic for is outside the supported subset".into()),
            "table.insert" => {
                if args.len() != 2 {
                    machinery("table.insert with a position is outside the supported subset".into());
                }
                let Val::Table(t) = &args[0] else {
                    return err(format!("bad argument #1 to 'insert' (table expected, got {})", args[0].type_name()));
                };
                if matches!(args[1], Val::Nil) {
                    machinery("table.insert of nil is outside the supported subset".into());
                }
                t.borrow_mut().arr.push(args[1].clone());
                Ok(Val::Nil)
            }
            "redis.error_reply" | "redis.status_reply" => {
                let Some(Val::Str(s)) = args.first() else {
                    return err("wrong number or type of arguments");
                };
                let key = if name == "redis.error_reply" { "err" } else { "ok" };
                let mut hash = BTreeMap::new();
                hash.insert(key.as_bytes().to_vec(), Val::Str(s.clone()));
                Ok(Val::Table(Rc::new(RefCell::new(Table { arr: vec![], hash }))))
            }
            "redis.call" | "redis.pcall" => {
                if args.is_empty() {
                    return err("Please specify at least one argument for this redis lib call");
                }
                let mut raw = vec![];
                for a in &args {
                    match a {
                        Val::Str(s) => raw.push((**s).clone()),
                        Val::Num(n) => raw.push(fmt_num(*n).into_bytes()),
                        _ => return err("Lua redis lib command arguments must be strings or integers"),
                    }
                }
                match self.host.redis_call(raw) {
                    Ok(v) => Ok(v),
                    Err(e) => {
                        if name == "redis.pcall" {
                            let mut hash = BTreeMap::new();
                            hash.insert(b"err".to_vec(), Val::str(e));
                            Ok(Val::Table(Rc::new(RefCell::new(Table { arr: vec![], hash }))))
                        } else {
                            Err(LuaError(e))
                        }
                    }
                }
            }
            _ => machinery(format!("unknown builtin {name}")),
        }
    }
}

#[cfg(test)]
mod tests {
    use super::*;

    struct NoHost;
    impl Host for NoHost {
        fn redis_call(&mut self, args: Vec<Vec<u8>>) -> Result<Val, String> {
            // echo: returns the table of args
            Ok(Val::table(args.into_iter().map(Val::str).collect()))
        }
    }

    fn run(src: &str, argv: &[&str]) -> R<Val> {
        let s = parse(src);
        let mut h = NoHost;
        let mut i = Interp::new(&mut h, vec![b"k1".to_vec()], argv.iter().map(|a| a.as_bytes().to_vec()).collect());
        i.run(&s)
    }

    fn num(v: R<Val>) -> f64 {
        match v {
            Ok(Val::Num(n)) => n,
            o => panic!("not a number: {o:?}"),
        }
    }

    #[test]
    fn arithmetic_and_precedence() {
        assert_eq!(num(run("return 1 + 2 * 3", &[])), 7.0);
        assert_eq!(num(run("return (1 + 2) * 3", &[])), 9.0);
        assert_eq!(num(run("return 2 ^ 3 ^ 2", &[])), 512.0);
        assert_eq!(num(run("return -2 ^ 2", &[])), -4.0);
        assert_eq!(num(run("return 7 % 3", &[])), 1.0);
        assert_eq!(num(run("return #\"abc\" + 1", &[])), 4.0);
        assert!(matches!(run("return 1 < 2 and 2 <= 2 and not (3 > 4)", &[]), Ok(Val::Bool(true))));
        assert!(matches!(run("return 1 == 1.0", &[]), Ok(Val::Bool(true))));
        assert!(matches!(run("return \"1\" == 1", &[]), Ok(Val::Bool(false))));
        assert!(matches!(run("return nil == false", &[]), Ok(Val::Bool(false))));
    }

    #[test]
    fn and_or_return_operands() {
        assert_eq!(num(run("return nil or 5", &[])), 5.0);
        assert_eq!(num(run("return false or 0", &[])), 0.0);
        assert_eq!(num(run("return 0 and 7", &[])), 7.0);
        assert!(matches!(run("return nil and 7", &[]), Ok(Val::Nil)));
        assert_eq!(num(run("return tonumber(false or \"0\")", &[])), 0.0);
    }

    #[test]
    fn compare_errors_like_lua() {
        assert!(run("return 1 < nil", &[]).is_err());
        assert!(run("return \"a\" < 1", &[]).is_err());
        assert!(matches!(run("return \"a\" < \"b\"", &[]), Ok(Val::Bool(true))));
        assert!(run("return tonumber(ARGV[1]) < 3", &["x"]).is_err());
    }

    #[test]
    fn tonumber_tostring() {
        assert_eq!(num(run("return tonumber(ARGV[1])", &["42"])), 42.0);
        assert_eq!(num(run("return tonumber(\" 10 \")", &[])), 10.0);
        assert_eq!(num(run("return tonumber(\"0x10\")", &[])), 16.0);
        assert!(matches!(run("return tonumber(\"abc\")", &[]), Ok(Val::Nil)));
        assert!(matches!(run("return tonumber(\"\")", &[]), Ok(Val::Nil)));
        assert!(matches!(run("return tonumber(nil)", &[]), Ok(Val::Nil)));
        match run("return tostring(tonumber(\"007\")) .. \"-\" .. 5", &[]) {
            Ok(Val::Str(s)) => assert_eq!(&**s, b"7-5"),
            o => panic!("{o:?}"),
        }
    }

    #[test]
    fn loops_break_and_tables() {
        let src = r#"
            local t = {}
            for i = 1, 10, 2 do
                if i > 7 then break end
                table.insert(t, i)
            end
            local sum = 0
            for _, v in ipairs(t) do sum = sum + v end
            return sum * 100 + #t
        "#;
        assert_eq!(num(run(src, &[])), 1604.0);
        let src = r#"
            local found = nil
            local fields = {"height", "3", "data", "x"}
            for i = 1, #fields, 2 do
                if fields[i] == "data" then found = fields[i + 1] elseif fields[i] == "zzz" then found = 1 else found = found end
            end
            return found
        "#;
        match run(src, &[]) {
            Ok(Val::Str(s)) => assert_eq!(&**s, b"x"),
            o => panic!("{o:?}"),
        }
        // nested loop with flag, as in write_block.lua
        let src = r#"
            local stop = false
            local n = 0
            for _, e in ipairs({{1,{"a","b"}}, {2,{"c","d"}}, {3,{"e","f"}}}) do
                local f = e[2]
                for i = 1, #f, 2 do
                    n = n + 1
                    if f[i] == "c" then stop = true break end
                end
                if stop then break end
            end
            return n
        "#;
        assert_eq!(num(run(src, &[])), 2.0);
    }

    #[test]
    fn redis_call_and_index_on_call() {
        match run("return redis.call(\"TIME\", 5)[2]", &[]) {
            Ok(Val::Str(s)) => assert_eq!(&**s, b"5"),
            o => panic!("{o:?}"),
        }
        match run("return redis.error_reply(\"X: \" .. ARGV[1] .. \" y\")", &["7"]) {
            Ok(Val::Table(t)) => match t.borrow().hash.get(&b"err"[..]) {
                Some(Val::Str(s)) => assert_eq!(&**s, b"X: 7 y"),
                o => panic!("{o:?}"),
            },
            o => panic!("{o:?}"),
        }
    }

    #[test]
    #[should_panic(expected = "mini-lua")]
    fn unknown_global_is_machinery_error() {
        let _ = run("return string.len(\"a\")", &[]);
    }

    #[test]
    #[should_panic(expected = "mini-lua")]
    fn unknown_syntax_is_machinery_error() {
        let _ = run("local function f() end", &[]);
    }
}
