//! MiniRedis: the state of one Redis node and exactly the commands the six
//! scripts issue, plus the Lua <-> RESP conversion rules of Redis scripting.
//!
//! Keys with a TTL never expire by themselves: they carry an `expirable` flag
//! and disappear only when the explorer fires `expire()`. Any command or option
//! outside the implemented subset is a machinery error (`panic!`).

use crate::{
    lua::{Host, Interp, LuaError, Script, Val},
    resp::Resp,
};
use std::collections::BTreeMap;

#[derive(Clone, Debug, PartialEq, Eq)]
pub struct StreamEntry {
    pub id: (u64, u64),
    pub fields: Vec<(Vec<u8>, Vec<u8>)>,
}

#[derive(Clone, Debug, Default, PartialEq, Eq)]
pub struct Stream {
    pub entries: Vec<StreamEntry>,
    pub last_id: (u64, u64),
}

#[derive(Clone, Debug, PartialEq, Eq)]
pub struct StrVal {
    pub val: Vec<u8>,
    /// has a TTL (PX / PEXPIRE); removed by `expire()` only
    pub expirable: bool,
}

#[derive(Clone, Debug, Default)]
pub struct Node {
    pub strings: BTreeMap<Vec<u8>, StrVal>,
    pub streams: BTreeMap<Vec<u8>, Stream>,
    /// `XTRIM MAXLEN ~ n` trims exactly (true) or, like real Redis on streams
    /// shorter than one macro node (100 entries), not at all (false).
    pub approx_trim_is_exact: bool,
    /// commands executed (diagnostics)
    pub commands: u64,
}

fn machinery(msg: String) -> ! {
    panic!("mini-redis: {msg}");
}

fn fmt_id(id: (u64, u64)) -> Vec<u8> {
    format!("{}-{}", id.0, id.1).into_bytes()
}

const WRONGTYPE: &str = "WRONGTYPE Operation against a key holding the wrong kind of value";

/// Logical server time (seconds); never read by the adapter.
const LOGICAL_TIME_S: u64 = 1_700_000_000;

impl Node {
    pub fn new(approx_trim_is_exact: bool) -> Node {
        Node { approx_trim_is_exact, ..Default::default() }
    }

    /// Data-losing restart.
    pub fn wipe(&mut self) {
        self.strings.clear();
        self.streams.clear();
    }

    /// TTL expiry of `key` (environment action). Returns whether a key was removed.
    pub fn expire(&mut self, key: &[u8]) -> bool {
        if self.strings.get(key).map(|v| v.expirable).unwrap_or(false) {
            self.strings.remove(key);
            true
        } else {
            false
        }
    }

    fn upper(a: &[u8]) -> String {
        String::from_utf8_lossy(a).to_ascii_uppercase()
    }

    fn parse_u64(a: &[u8], what: &str) -> Result<u64, String> {
        std::str::from_utf8(a).ok().and_then(|s| s.parse::<u64>().ok()).ok_or_else(|| format!("ERR {what} is not an integer or out of range"))
    }

    fn entry_reply(e: &StreamEntry) -> Resp {
        let mut f = vec![];
        for (k, v) in &e.fields {
            f.push(Resp::Bulk(k.clone()));
            f.push(Resp::Bulk(v.clone()));
        }
        Resp::Array(vec![Resp::Bulk(fmt_id(e.id)), Resp::Array(f)])
    }

    /// Execute one command; `Err` = Redis error reply text.
    pub fn command(&mut self, args: &[Vec<u8>]) -> Result<Resp, String> {
        self.commands += 1;
        let name = Self::upper(&args[0]);
        let a = &args[1..];
        match name.as_str() {
            "GET" => {
                if a.len() != 1 {
                    machinery("GET arity".into());
                }
                if self.streams.contains_key(&a[0]) {
                    return Err(WRONGTYPE.into());
                }
                Ok(match self.strings.get(&a[0]) {
                    Some(v) => Resp::Bulk(v.val.clone()),
                    None => Resp::NilBulk,
                })
            }
            "SET" => {
                if a.len() < 2 {
                    machinery("SET arity".into());
                }
                let mut px = None;
                let mut nx = false;
                let mut i = 2;
                while i < a.len() {
                    match Self::upper(&a[i]).as_str() {
                        "PX" => {
                            let ms = Self::parse_u64(a.get(i + 1).unwrap_or_else(|| machinery("SET PX without value".into())), "value")?;
                            if ms == 0 {
                                return Err("ERR invalid expire time in 'set' command".into());
                            }
                            px = Some(ms);
                            i += 2;
                        }
                        "NX" => {
                            nx = true;
                            i += 1;
                        }
                        o => machinery(format!("SET option {o} is outside the implemented subset")),
                    }
                }
                if nx && (self.strings.contains_key(&a[0]) || self.streams.contains_key(&a[0])) {
                    return Ok(Resp::NilBulk);
                }
                self.streams.remove(&a[0]);
                self.strings.insert(a[0].clone(), StrVal { val: a[1].clone(), expirable: px.is_some() });
                Ok(Resp::ok())
            }
            "INCR" => {
                if a.len() != 1 {
                    machinery("INCR arity".into());
                }
                if self.streams.contains_key(&a[0]) {
                    return Err(WRONGTYPE.into());
                }
                let cur = match self.strings.get(&a[0]) {
                    Some(v) => std::str::from_utf8(&v.val)
                        .ok()
                        .and_then(|s| s.parse::<i64>().ok())
                        .ok_or("ERR value is not an integer or out of range")?,
                    None => 0,
                };
                let next = cur.checked_add(1).ok_or("ERR increment or decrement would overflow")?;
                let expirable = self.strings.get(&a[0]).map(|v| v.expirable).unwrap_or(false);
                self.strings.insert(a[0].clone(), StrVal { val: next.to_string().into_bytes(), expirable });
                Ok(Resp::Int(next))
            }
            "DEL" => {
                let mut n = 0;
                for k in a {
                    if self.strings.remove(k).is_some() {
                        n += 1;
                    }
                    if self.streams.remove(k).is_some() {
                        n += 1;
                    }
                }
                Ok(Resp::Int(n))
            }
            "PEXPIRE" => {
                if a.len() != 2 {
                    machinery("PEXPIRE options are outside the implemented subset".into());
                }
                let ms = std::str::from_utf8(&a[1]).ok().and_then(|s| s.parse::<i64>().ok()).ok_or("ERR value is not an integer or out of range")?;
                if ms <= 0 {
                    // a non-positive timeout deletes the key
                    let existed = self.strings.remove(&a[0]).is_some() | self.streams.remove(&a[0]).is_some();
                    return Ok(Resp::Int(existed as i64));
                }
                if let Some(v) = self.strings.get_mut(&a[0]) {
                    v.expirable = true;
                    Ok(Resp::Int(1))
                } else if self.streams.contains_key(&a[0]) {
                    machinery("PEXPIRE on a stream is outside the implemented subset".into())
                } else {
                    Ok(Resp::Int(0))
                }
            }
            "TIME" => Ok(Resp::Array(vec![Resp::Bulk(LOGICAL_TIME_S.to_string().into_bytes()), Resp::Bulk(b"0".to_vec())])),
            "XADD" => {
                if a.len() < 4 || a[1] != b"*" || (a.len() - 2) % 2 != 0 {
                    machinery(format!("XADD form outside the implemented subset: {} args, id {:?}", a.len(), String::from_utf8_lossy(&a[1])));
                }
                if self.strings.contains_key(&a[0]) {
                    return Err(WRONGTYPE.into());
                }
                let s = self.streams.entry(a[0].clone()).or_default();
                // `*`: <ms>-<seq>, strictly increasing; the logical clock never advances
                let id = if s.last_id.0 >= LOGICAL_TIME_S * 1000 { (s.last_id.0, s.last_id.1 + 1) } else { (LOGICAL_TIME_S * 1000, 0) };
                s.last_id = id;
                let fields = a[2..].chunks(2).map(|c| (c[0].clone(), c[1].clone())).collect();
                s.entries.push(StreamEntry { id, fields });
                Ok(Resp::Bulk(fmt_id(id)))
            }
            "XRANGE" | "XREVRANGE" => {
                let rev = name == "XREVRANGE";
                let (lo, hi) = if rev { (b"+", b"-") } else { (b"-", b"+") };
                if a.len() < 3 || a[1] != lo || a[2] != hi {
                    machinery(format!("{name} with explicit bounds is outside the implemented subset"));
                }
                let mut count = None;
                if a.len() > 3 {
                    if a.len() != 5 || Self::upper(&a[3]) != "COUNT" {
                        machinery(format!("{name} options outside the implemented subset"));
                    }
                    let c = std::str::from_utf8(&a[4]).ok().and_then(|s| s.parse::<i64>().ok()).ok_or("ERR value is not an integer or out of range")?;
                    count = Some(c);
                }
                if self.strings.contains_key(&a[0]) {
                    return Err(WRONGTYPE.into());
                }
                let empty = Stream::default();
                let s = self.streams.get(&a[0]).unwrap_or(&empty);
                let mut it: Vec<&StreamEntry> = s.entries.iter().collect();
                if rev {
                    it.reverse();
                }
                if let Some(c) = count {
                    if c <= 0 {
                        // real Redis: COUNT 0 -> nil/empty, negative -> everything
                        machinery(format!("{name} COUNT {c} is outside the implemented subset"));
                    }
                    it.truncate(c as usize);
                }
                Ok(Resp::Array(it.into_iter().map(Self::entry_reply).collect()))
            }
            "XTRIM" => {
                if a.len() != 4 || Self::upper(&a[1]) != "MAXLEN" || (a[2] != b"~" && a[2] != b"=") {
                    machinery("XTRIM form outside the implemented subset".into());
                }
                let max = Self::parse_u64(&a[3], "value")? as usize;
                if self.strings.contains_key(&a[0]) {
                    return Err(WRONGTYPE.into());
                }
                let Some(s) = self.streams.get_mut(&a[0]) else { return Ok(Resp::Int(0)) };
                if s.entries.len() >= 100 {
                    machinery("stream reached a full macro node (100 entries); approximate trimming not modelled there".into());
                }
                let exact = a[2] == b"=" || self.approx_trim_is_exact;
                if !exact || s.entries.len() <= max {
                    return Ok(Resp::Int(0));
                }
                let del = s.entries.len() - max;
                s.entries.drain(0..del);
                Ok(Resp::Int(del as i64))
            }
            o => machinery(format!("command {o} is outside the implemented subset")),
        }
    }

    /// EVAL: run `script` atomically against this node.
    pub fn eval(&mut self, script: &Script, keys: Vec<Vec<u8>>, argv: Vec<Vec<u8>>) -> Resp {
        struct H<'a>(&'a mut Node);
        impl Host for H<'_> {
            fn redis_call(&mut self, args: Vec<Vec<u8>>) -> Result<Val, String> {
                match self.0.command(&args) {
                    Ok(r) => Ok(resp_to_lua(&r)),
                    Err(e) => Err(e),
                }
            }
        }
        let mut h = H(self);
        let mut it = Interp::new(&mut h, keys, argv);
        match it.run(script) {
            Ok(v) => lua_to_resp(&v),
            Err(LuaError(m)) => {
                // a failing redis.call propagates the command's error; other
                // run-time errors are reported the way Redis reports script errors
                if m.starts_with("ERR ") || m.starts_with("WRONGTYPE ") {
                    Resp::err(m)
                } else {
                    Resp::err(format!("ERR user_script: {m}"))
                }
            }
        }
    }
}

/// Redis reply -> Lua value (RESP2 rules).
pub fn resp_to_lua(r: &Resp) -> Val {
    match r {
        Resp::Int(i) => Val::Num(*i as f64),
        Resp::Bulk(b) => Val::str(b.clone()),
        Resp::NilBulk => Val::Bool(false),
        Resp::Array(a) => Val::table(a.iter().map(resp_to_lua).collect()),
        Resp::Simple(s) => {
            let t = Val::table(vec![]);
            if let Val::Table(tt) = &t {
                tt.borrow_mut().hash.insert(b"ok".to_vec(), Val::str(s.clone()));
            }
            t
        }
        Resp::Error(_) => machinery("error replies are raised, not converted".into()),
    }
}

/// Lua value -> Redis reply (RESP2 rules).
pub fn lua_to_resp(v: &Val) -> Resp {
    match v {
        Val::Nil | Val::Bool(false) => Resp::NilBulk,
        Val::Bool(true) => Resp::Int(1),
        Val::Num(n) => Resp::Int(*n as i64),
        Val::Str(s) => Resp::Bulk((**s).clone()),
        Val::Table(t) => {
            let t = t.borrow();
            if let Some(Val::Str(e)) = t.hash.get(&b"err"[..]) {
                return Resp::err(&**e);
            }
            if let Some(Val::Str(s)) = t.hash.get(&b"ok"[..]) {
                return Resp::Simple((**s).clone());
            }
            let mut out = vec![];
            for x in &t.arr {
                if matches!(x, Val::Nil) {
                    break;
                }
                out.push(lua_to_resp(x));
            }
            Resp::Array(out)
        }
        Val::Builtin(_) | Val::Namespace(_) => Resp::NilBulk,
    }
}

#[cfg(test)]
mod tests {
    use super::*;
    use crate::lua::parse;

    fn b(s: &str) -> Vec<u8> {
        s.as_bytes().to_vec()
    }
    fn cmd(n: &mut Node, parts: &[&str]) -> Result<Resp, String> {
        n.command(&parts.iter().map(|p| b(p)).collect::<Vec<_>>())
    }
    fn script(name: &str) -> Script {
        let p = mcx::repo_root().join("crates/fuel-core/redis_leader_lease_adapter_scripts").join(name);
        parse(&std::fs::read_to_string(p).unwrap())
    }
    const LOCK: &str = "poa:leader:lock";
    const EPOCH: &str = "poa:leader:lock:epoch:token";
    const STREAM: &str = "poa:leader:lock:block:stream";

    fn promote(n: &mut Node, owner: &str) -> Resp {
        n.eval(&script("promote_leader.lua"), vec![b(LOCK), b(EPOCH)], vec![b(owner), b("60000")])
    }
    fn write(n: &mut Node, epoch: u64, owner: &str, h: u32, data: &str, maxlen: u32) -> Resp {
        n.eval(
            &script("write_block.lua"),
            vec![b(STREAM), b(EPOCH), b(LOCK)],
            vec![b(&epoch.to_string()), b(owner), b(&h.to_string()), b(data), b("60000"), b(&maxlen.to_string())],
        )
    }
    fn is_err(r: &Resp, prefix: &str) -> bool {
        matches!(r, Resp::Error(e) if e.starts_with(prefix.as_bytes()))
    }

    #[test]
    fn commands() {
        let mut n = Node::new(false);
        assert_eq!(cmd(&mut n, &["GET", "k"]), Ok(Resp::NilBulk));
        assert_eq!(cmd(&mut n, &["SET", "k", "v", "PX", "100", "NX"]), Ok(Resp::ok()));
        assert_eq!(cmd(&mut n, &["SET", "k", "w", "PX", "100", "NX"]), Ok(Resp::NilBulk));
        assert_eq!(cmd(&mut n, &["GET", "k"]), Ok(Resp::Bulk(b("v"))));
        assert_eq!(cmd(&mut n, &["INCR", "c"]), Ok(Resp::Int(1)));
        assert_eq!(cmd(&mut n, &["INCR", "c"]), Ok(Resp::Int(2)));
        assert!(cmd(&mut n, &["INCR", "k"]).is_err());
        assert!(n.expire(b"k"));
        assert!(!n.expire(b"c"));
        assert_eq!(cmd(&mut n, &["PEXPIRE", "k", "5"]), Ok(Resp::Int(0)));
        assert_eq!(cmd(&mut n, &["SET", "c", "9"]), Ok(Resp::ok()));
        assert_eq!(cmd(&mut n, &["PEXPIRE", "c", "5"]), Ok(Resp::Int(1)));
        assert_eq!(cmd(&mut n, &["DEL", "c", "zz"]), Ok(Resp::Int(1)));
        let id1 = cmd(&mut n, &["XADD", "s", "*", "a", "1"]).unwrap();
        let id2 = cmd(&mut n, &["XADD", "s", "*", "a", "2"]).unwrap();
        assert_ne!(id1, id2);
        let Resp::Array(all) = cmd(&mut n, &["XRANGE", "s", "-", "+"]).unwrap() else { panic!() };
        assert_eq!(all.len(), 2);
        let Resp::Array(last) = cmd(&mut n, &["XREVRANGE", "s", "+", "-", "COUNT", "1"]).unwrap() else { panic!() };
        assert_eq!(last.len(), 1);
        assert_eq!(last[0], Resp::Array(vec![id2.clone(), Resp::Array(vec![Resp::Bulk(b("a")), Resp::Bulk(b("2"))])]));
        assert_eq!(cmd(&mut n, &["XTRIM", "s", "MAXLEN", "~", "1"]), Ok(Resp::Int(0)));
        assert_eq!(cmd(&mut n, &["XTRIM", "s", "MAXLEN", "=", "1"]), Ok(Resp::Int(1)));
        assert!(cmd(&mut n, &["GET", "s"]).is_err());
    }

    #[test]
    fn promote_check_release() {
        let mut n = Node::new(false);
        assert_eq!(promote(&mut n, "A"), Resp::Int(1));
        assert!(is_err(&promote(&mut n, "B"), "LOCK_HELD:"));
        assert!(is_err(&promote(&mut n, "A"), "LOCK_HELD:"));
        let chk = script("check_lease_owner.lua");
        assert_eq!(n.eval(&chk, vec![b(LOCK)], vec![b("A")]), Resp::Int(1));
        assert_eq!(n.eval(&chk, vec![b(LOCK)], vec![b("B")]), Resp::Int(0));
        let rel = script("release_lock.lua");
        assert_eq!(n.eval(&rel, vec![b(LOCK)], vec![b("B")]), Resp::Int(0));
        assert_eq!(n.eval(&rel, vec![b(LOCK)], vec![b("A")]), Resp::Int(1));
        assert_eq!(n.eval(&chk, vec![b(LOCK)], vec![b("A")]), Resp::Int(0));
        // epoch survives release; next promotion increments it
        assert_eq!(promote(&mut n, "B"), Resp::Int(2));
        assert!(n.expire(LOCK.as_bytes()));
        assert_eq!(promote(&mut n, "A"), Resp::Int(3));
    }

    #[test]
    fn write_block_checks() {
        let mut n = Node::new(false);
        // no lock at all: identity check fails
        assert!(is_err(&write(&mut n, 1, "A", 1, "a1", 1000), "FENCING_ERROR: Lock lost"));
        assert_eq!(promote(&mut n, "A"), Resp::Int(1));
        assert!(is_err(&write(&mut n, 1, "B", 1, "b1", 1000), "FENCING_ERROR: Lock lost"));
        // stale token
        assert_eq!(cmd(&mut n, &["SET", EPOCH, "5"]), Ok(Resp::ok()));
        assert!(is_err(&write(&mut n, 4, "A", 1, "a1", 1000), "FENCING_ERROR: Token is stale"));
        // newer token heals the node epoch
        assert!(matches!(write(&mut n, 7, "A", 1, "a1", 1000), Resp::Bulk(_)));
        assert_eq!(cmd(&mut n, &["GET", EPOCH]), Ok(Resp::Bulk(b("7"))));
        // height exists, whatever the data
        assert!(is_err(&write(&mut n, 7, "A", 1, "zz", 1000), "HEIGHT_EXISTS: Block at height 1 already in stream"));
        assert!(matches!(write(&mut n, 7, "A", 2, "a2", 1000), Resp::Bulk(_)));
        assert!(is_err(&write(&mut n, 7, "A", 1, "zz", 1000), "HEIGHT_EXISTS:"));
        assert!(is_err(&write(&mut n, 7, "A", 2, "zz", 1000), "HEIGHT_EXISTS:"));
        // the lock got a fresh TTL (still expirable), stream has 2 entries with the 4 fields
        let s = &n.streams[STREAM.as_bytes()];
        assert_eq!(s.entries.len(), 2);
        let f: Vec<&[u8]> = s.entries[1].fields.iter().map(|(k, _)| &k[..]).collect();
        assert_eq!(f, vec![&b"height"[..], b"data", b"epoch", b"timestamp"]);
        assert!(n.strings[LOCK.as_bytes()].expirable);
    }

    #[test]
    fn read_scripts() {
        let mut n = Node::new(false);
        let latest = script("read_latest_stream_entry.lua");
        let entries = script("read_stream_entries.lua");
        assert_eq!(n.eval(&latest, vec![b(STREAM)], vec![]), Resp::Array(vec![]));
        assert_eq!(n.eval(&entries, vec![b(STREAM)], vec![b("1"), b("10")]), Resp::Array(vec![]));
        promote(&mut n, "A");
        for h in 1..=3 {
            assert!(matches!(write(&mut n, 1, "A", h, &format!("d{h}"), 1000), Resp::Bulk(_)));
        }
        let Resp::Array(l) = n.eval(&latest, vec![b(STREAM)], vec![]) else { panic!() };
        assert_eq!(l[0], Resp::Bulk(b("3")));
        let Resp::Array(e) = n.eval(&entries, vec![b(STREAM)], vec![b("2"), b("10")]) else { panic!() };
        assert_eq!(e.len(), 2);
        let Resp::Array(e0) = &e[0] else { panic!() };
        assert_eq!(&e0[..3], &[Resp::Int(2), Resp::Int(1), Resp::Bulk(b("d2"))]);
        let Resp::Array(e) = n.eval(&entries, vec![b(STREAM)], vec![b("1"), b("1")]) else { panic!() };
        assert_eq!(e.len(), 1);
        assert_eq!(n.eval(&entries, vec![b(STREAM)], vec![b("x"), b("1")]), Resp::Array(vec![]));
        assert_eq!(n.eval(&entries, vec![b(STREAM)], vec![b("1"), b("0")]), Resp::Array(vec![]));
    }

    #[test]
    fn exact_trim_mode() {
        let mut n = Node::new(true);
        promote(&mut n, "A");
        for h in 1..=3 {
            assert!(matches!(write(&mut n, 1, "A", h, "d", 2), Resp::Bulk(_)));
        }
        assert_eq!(n.streams[STREAM.as_bytes()].entries.len(), 2);
    }
}
