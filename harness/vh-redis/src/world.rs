//! The C25 world: MiniRedis nodes behind a controllable fake Redis server
//! (RESP2 over Unix sockets), R real `RedisLeaderLeaseAdapter`s (one OS thread
//! + one current-thread tokio runtime each), and a replica driver mirroring
//! what PoA `MainTask::try_to_produce_block` and the importer's commit do with
//! the adapter.
//!
//! Every script call the adapters issue is *queued*; nothing executes until the
//! explorer decides its fate. Quiescence (= "replica r cannot move without the
//! explorer") is established without sleeping or timing decisions:
//!  * async calls: tokio `on_thread_park`/`on_thread_unpark` counters; the
//!    explorer performs exactly one socket write at a time and waits for one full
//!    wake -> process -> park cycle; parks caused by connection establishment are
//!    recognised by connections that have not yet sent their first command;
//!  * sync `write_block.lua` fan-out (`publish_block_on_all_nodes`): add-only
//!    `verif-hooks` events (Started/AboutToRecv/Received/Finished).
//! Real time never decides anything: every replica runtime runs on a *frozen*
//! tokio clock (`start_paused` + auto-advance inhibited by a parked
//! `spawn_blocking` task), so neither the adapter's `timeout(node_timeout, ..)`
//! nor the redis client's built-in 500 ms response / 1 s connect timers can
//! fire; the only effect of those timers is a periodic spurious park cycle,
//! which the "reply consumed" test (SIOCOUTQ == 0 on the explorer's end of the
//! socket) makes harmless. Hard timeouts only guard against hangs (=> retry =>
//! machinery failure).

use crate::{
    lua::{self, Script},
    miniredis::Node,
    resp::{parse_command, Resp},
};
use fuel_core::service::adapters::consensus_module::poa::{verif_hooks as hooks, RedisLeaderLeaseAdapter as Adapter};
use fuel_core_importer::ports::BlockReconciliationWritePort;
use fuel_core_poa::ports::{BlockReconciliationReadPort, LeaderState};
use fuel_core_types::{
    blockchain::{block::Block, consensus::Consensus, primitives::BlockId, SealedBlock},
    tai64::Tai64,
};
use serde::{Deserialize, Serialize};
use sha1::{Digest, Sha1};
use std::{
    collections::{BTreeMap, BTreeSet, HashMap},
    io::{ErrorKind, Read, Write},
    os::{
        fd::AsRawFd,
        unix::net::{UnixListener, UnixStream},
    },
    path::PathBuf,
    sync::{atomic::AtomicU64, mpsc, Arc, Condvar, Mutex, OnceLock},
    time::{Duration, Instant},
};

pub const LEASE_KEY: &str = "poa:leader:lock";
const HARD_TIMEOUT: Duration = Duration::from_secs(15);
const LONG: Duration = Duration::from_secs(3600);

/// A harness-level hiccup (timeout / real-time interference). Never a verdict:
/// the caller rebuilds the world and retries, then gives up as machinery failure.
#[derive(Debug, Clone)]
pub struct Interf(pub String);

type Res<T> = Result<T, Interf>;

fn machinery(msg: String) -> ! {
    panic!("vh-redis machinery: {msg}");
}

// ---------------------------------------------------------------------------
// configuration, letters
// ---------------------------------------------------------------------------

#[derive(Clone, Debug, Serialize)]
pub struct Cfg {
    pub name: String,
    pub replicas: usize,
    pub nodes: usize,
    pub budget: u32,
    pub stream_max_len: u32,
    pub exact_trim: bool,
    pub max_height: u32,
    pub max_epoch: u64,
    pub max_crashes: u32,
    pub allow_release: bool,
    pub allow_sync: bool,
    /// replicas other than 0 only follow (P2P sync) until replica 0 has committed this height
    pub standby_until: u32,
    /// fine-grained deviations: per-call Drop/Defer, split fan-outs, preemptive
    /// switches, faults in the middle of an operation (false: only the macro
    /// faults Partition/Crash/Expire/Release/WipeNode at operation boundaries)
    pub fine_faults: bool,
    pub max_partitions: u32,
    /// offer lease expiry on a single node (clock skew); ExpireAll is always offered
    pub expire_one: bool,
}

#[derive(Clone, Copy, Debug, Serialize, Deserialize, PartialEq, Eq)]
pub enum Fate {
    /// execute now, reply delivered
    Deliver,
    /// never executed, client sees a failure
    Drop,
    /// client sees a failure (timeout) now; the call stays in flight and may execute later
    Defer,
}

#[derive(Clone, Debug, Serialize, Deserialize, PartialEq, Eq)]
pub enum Op {
    Tick(usize),
    Exec { r: usize, n: usize, k: usize, fate: Fate },
    /// all calls of replica r's current join_all fan-out, in node order, with these fates
    Batch { r: usize, fates: Vec<Fate> },
    Commit(usize),
    GhostExec(usize),
    Expire(usize),
    ExpireAll,
    Crash(usize),
    Restart(usize),
    Release(usize),
    WipeNode(usize),
    /// replica r imports the next block from a peer that already committed it (P2P sync)
    Sync(usize),
    /// replica r cannot reach node n any more: every call fails without executing
    Partition { r: usize, n: usize },
    Heal { r: usize, n: usize },
}

// ---------------------------------------------------------------------------
// scripts (text read from the repository at run time)
// ---------------------------------------------------------------------------

impl Kind {
    /// scripts that never modify the node: executing one whose reply nobody reads is a no-op
    pub fn read_only(self) -> bool {
        matches!(self, Kind::Check | Kind::ReadLatest | Kind::ReadEntries)
    }
}

#[derive(Clone, Copy, Debug, PartialEq, Eq, PartialOrd, Ord)]
pub enum Kind {
    Check,
    Promote,
    Release,
    Write,
    ReadLatest,
    ReadEntries,
}

pub struct Scripts {
    pub by_sha: HashMap<String, (Kind, Script)>,
}

pub fn scripts() -> &'static Scripts {
    static S: OnceLock<Scripts> = OnceLock::new();
    S.get_or_init(|| {
        let dir = mcx::repo_root().join("crates/fuel-core/redis_leader_lease_adapter_scripts");
        let mut by_sha = HashMap::new();
        for (file, kind) in [
            ("check_lease_owner.lua", Kind::Check),
            ("promote_leader.lua", Kind::Promote),
            ("release_lock.lua", Kind::Release),
            ("write_block.lua", Kind::Write),
            ("read_latest_stream_entry.lua", Kind::ReadLatest),
            ("read_stream_entries.lua", Kind::ReadEntries),
        ] {
            let text = std::fs::read_to_string(dir.join(file)).unwrap_or_else(|e| machinery(format!("cannot read {file}: {e}")));
            let sha = hex::encode(Sha1::digest(text.as_bytes()));
            by_sha.insert(sha, (kind, lua::parse(&text)));
        }
        Scripts { by_sha }
    })
}

// ---------------------------------------------------------------------------
// replica thread <-> explorer shared state
// ---------------------------------------------------------------------------

#[derive(Debug)]
pub enum OpOut {
    Follower,
    Leader,
    Unreconciled(Vec<SealedBlock>),
    LsErr(String),
    PublishOk,
    PublishErr(String),
    Released(Result<(), String>),
}

enum Cmd {
    Adopt { cfg: Cfg, urls: Vec<String>, shared: Arc<Shared>, boot: mpsc::SyncSender<Result<Arc<Adapter>, String>> },
    LeaderState(u32),
    Publish(Box<SealedBlock>),
    Release,
    /// the incarnation is over (crash / teardown); the worker goes back to the pool
    Retire,
}

#[derive(Default, Debug)]
struct Sh {
    parks: u64,
    unparks: u64,
    done: Option<OpOut>,
    pub_started: u64,
    pub_nodes: usize,
    pub_about: u64,
    pub_recv: u64,
    pub_finished: u64,
}

struct Shared {
    m: Mutex<Sh>,
    cv: Condvar,
}

impl Shared {
    fn wait<T>(&self, what: &str, mut f: impl FnMut(&mut Sh) -> Option<T>) -> Res<T> {
        let deadline = Instant::now() + HARD_TIMEOUT;
        let mut g = self.m.lock().unwrap();
        loop {
            if let Some(t) = f(&mut g) {
                return Ok(t);
            }
            let now = Instant::now();
            if now >= deadline {
                return Err(Interf(format!("timeout waiting for {what}: {:?}", *g)));
            }
            g = self.cv.wait_timeout(g, deadline - now).unwrap().0;
        }
    }
    fn peek<T>(&self, f: impl FnOnce(&Sh) -> T) -> T {
        f(&self.m.lock().unwrap())
    }
    fn with<T>(&self, f: impl FnOnce(&mut Sh) -> T) -> T {
        let mut g = self.m.lock().unwrap();
        let t = f(&mut g);
        drop(g);
        self.cv.notify_all();
        t
    }
}

fn registry() -> &'static Mutex<HashMap<String, Arc<Shared>>> {
    static R: OnceLock<Mutex<HashMap<String, Arc<Shared>>>> = OnceLock::new();
    R.get_or_init(|| {
        hooks::set_publish_observer(Box::new(|owner, ev| {
            let sh = registry().lock().unwrap().get(owner).cloned();
            if let Some(sh) = sh {
                sh.with(|s| match ev {
                    hooks::PublishEvent::Started { nodes } => {
                        s.pub_started += 1;
                        s.pub_nodes = nodes;
                    }
                    hooks::PublishEvent::AboutToRecv => s.pub_about += 1,
                    hooks::PublishEvent::Received { .. } => s.pub_recv += 1,
                    hooks::PublishEvent::Finished => s.pub_finished += 1,
                });
            }
        }));
        Mutex::new(HashMap::new())
    })
}

/// Pooled replica worker: one OS thread + one frozen-clock current-thread
/// runtime, reused by successive replica incarnations (thread creation is by
/// far the most expensive step of building a world in this sandbox).
#[derive(Clone)]
struct Worker {
    tx: mpsc::Sender<Cmd>,
}

type Slot = Arc<Mutex<Option<Arc<Shared>>>>;

pub static WORKERS_CREATED: AtomicU64 = AtomicU64::new(0);
pub static WORKERS_DISCARDED: AtomicU64 = AtomicU64::new(0);

fn pool() -> &'static Mutex<Vec<Worker>> {
    static P: OnceLock<Mutex<Vec<Worker>>> = OnceLock::new();
    P.get_or_init(|| Mutex::new(Vec::new()))
}

fn take_worker() -> Res<Worker> {
    if let Some(w) = pool().lock().unwrap().pop() {
        return Ok(w);
    }
    WORKERS_CREATED.fetch_add(1, std::sync::atomic::Ordering::Relaxed);
    let (tx, rx) = mpsc::channel();
    let me = Worker { tx: tx.clone() };
    std::thread::Builder::new()
        .name("replica-worker".into())
        .stack_size(1 << 20)
        .spawn(move || worker_thread(me, rx))
        .map_err(|e| Interf(format!("spawn: {e}")))?;
    Ok(Worker { tx })
}

fn worker_thread(me: Worker, rx: mpsc::Receiver<Cmd>) {
    let slot: Slot = Arc::new(Mutex::new(None));
    let (s1, s2) = (slot.clone(), slot.clone());
    let current = |s: &Slot| s.lock().unwrap().clone();
    let rt = tokio::runtime::Builder::new_current_thread()
        .enable_all()
        .on_thread_park(move || {
            if let Some(sh) = current(&s1) {
                sh.with(|s| s.parks += 1)
            }
        })
        .on_thread_unpark(move || {
            if let Some(sh) = current(&s2) {
                sh.with(|s| s.unparks += 1)
            }
        })
        .start_paused(true)
        .build()
        .expect("tokio runtime");
    // an outstanding blocking task inhibits the paused clock's auto-advance: time stands still
    let (_freeze_tx, freeze_rx) = mpsc::channel::<()>();
    let _freezer = rt.spawn_blocking(move || {
        let _ = freeze_rx.recv();
    });
    let mut cur: Option<(Arc<Adapter>, Arc<Shared>, String)> = None;
    while let Ok(cmd) = rx.recv() {
        let out = match cmd {
            Cmd::Adopt { cfg, urls, shared, boot } => {
                match Adapter::new(urls, LEASE_KEY.to_string(), LONG, LONG, Duration::ZERO, Duration::ZERO, 1, cfg.stream_max_len) {
                    Ok(a) => {
                        let a = Arc::new(a.with_quorum_disruption_budget(cfg.budget));
                        let token = a.verif_lease_owner_token().to_string();
                        registry().lock().unwrap().insert(token.clone(), shared.clone());
                        *slot.lock().unwrap() = Some(shared.clone());
                        cur = Some((a.clone(), shared, token));
                        let _ = boot.send(Ok(a));
                    }
                    Err(e) => {
                        let _ = boot.send(Err(format!("{e}")));
                    }
                }
                continue;
            }
            Cmd::Retire => {
                *slot.lock().unwrap() = None;
                if let Some((adapter, _, token)) = cur.take() {
                    registry().lock().unwrap().remove(&token);
                    // Every socket of this replica is closed and unlinked by now: the
                    // lease release in `Drop` cannot reach any node (a crash releases nothing).
                    drop(adapter);
                }
                // let the connection tasks of the retired adapter observe EOF and end
                let mut clean = false;
                for _ in 0..500 {
                    if rt.metrics().num_alive_tasks() == 0 {
                        clean = true;
                        break;
                    }
                    rt.block_on(async { tokio::task::yield_now().await });
                }
                if clean && pool().lock().unwrap().len() < 256 {
                    pool().lock().unwrap().push(me.clone());
                    continue;
                }
                WORKERS_DISCARDED.fetch_add(1, std::sync::atomic::Ordering::Relaxed);
                // leave the runtime (and its freezer thread) behind rather than block on it
                std::mem::forget(rt);
                return;
            }
            op => {
                let Some((adapter, _, _)) = cur.as_ref() else { machinery("operation sent to a worker without adapter".into()) };
                match op {
                    Cmd::LeaderState(h) => match rt.block_on(adapter.leader_state(h.into())) {
                        Ok(LeaderState::ReconciledFollower) => OpOut::Follower,
                        Ok(LeaderState::ReconciledLeader) => OpOut::Leader,
                        Ok(LeaderState::UnreconciledBlocks(b)) => OpOut::Unreconciled(b),
                        Err(e) => OpOut::LsErr(format!("{e}")),
                    },
                    // the importer calls this synchronously, outside any of the adapter's own async code
                    Cmd::Publish(b) => match adapter.publish_produced_block(&b) {
                        Ok(()) => OpOut::PublishOk,
                        Err(e) => OpOut::PublishErr(format!("{e}")),
                    },
                    Cmd::Release => OpOut::Released(rt.block_on(adapter.release()).map_err(|e| format!("{e}"))),
                    Cmd::Adopt { .. } | Cmd::Retire => unreachable!(),
                }
            }
        };
        if let Some((_, shared, _)) = cur.as_ref() {
            shared.with(|s| s.done = Some(out));
        }
    }
}

// ---------------------------------------------------------------------------
// fake server side
// ---------------------------------------------------------------------------

struct Conn {
    id: u64,
    stream: UnixStream,
    buf: Vec<u8>,
    got_command: bool,
    pending_hs: usize,
    eof: bool,
    /// `Some(seq)`: connection of a sync publish thread (publish number `seq`)
    sync_pub: Option<u64>,
}

struct Link {
    path: PathBuf,
    listener: UnixListener,
    conns: Vec<Conn>,
}

#[derive(Clone, Debug)]
pub struct Call {
    pub r: usize,
    pub n: usize,
    conn: u64,
    pub kind: Kind,
    sha: String,
    keys: Vec<Vec<u8>>,
    argv: Vec<Vec<u8>>,
    pub sync_pub: Option<u64>,
    pub desc: String,
}

#[derive(Clone, Debug)]
pub struct Ghost {
    pub n: usize,
    sha: String,
    keys: Vec<Vec<u8>>,
    argv: Vec<Vec<u8>>,
    pub desc: String,
}

struct Live {
    shared: Arc<Shared>,
    tx: mpsc::Sender<Cmd>,
    adapter: Option<Arc<Adapter>>,
    links: Vec<Link>,
    seen_pub_started: u64,
}

#[derive(Clone, Debug, PartialEq, Eq)]
pub enum Busy {
    LeaderState(u32),
    Publish(String),
    ReleaseAfterFailedPublish,
    Release,
}

#[derive(Clone, Debug, PartialEq, Eq)]
pub enum Phase {
    Down,
    Idle,
    Busy(Busy),
    ReadyToCommit(String),
    ReadyToImport(Vec<String>),
}

pub struct Replica {
    pub inc: u32,
    live: Option<Live>,
    pub phase: Phase,
    /// committed blocks (height -> block tag); survives crashes
    pub db: BTreeMap<u32, String>,
    pub produced: u32,
    /// what the adapter has been told during the operation in flight
    pub oplog: Vec<String>,
}

enum Settled {
    Waiting,
    Done(OpOut),
}

enum Scan {
    Fresh,
    Handshake(usize, u64),
    Quiet,
}

#[derive(Default)]
pub struct Blocks {
    by_id: HashMap<BlockId, String>,
    by_tag: HashMap<String, SealedBlock>,
    by_data: HashMap<Vec<u8>, String>,
}

pub struct World {
    pub cfg: Cfg,
    dir: PathBuf,
    pub nodes: Vec<Node>,
    pub reps: Vec<Replica>,
    pub queue: Vec<Call>,
    pub ghosts: Vec<Ghost>,
    next_conn: u64,
    pub blocks: Blocks,
    tokens: HashMap<Vec<u8>, String>,
    pub wipes: u32,
    pub crashes: u32,
    pub partitions: u32,
    /// some replica has ticked already
    pub started: bool,
    /// (replica, node) links that are cut
    pub cut: BTreeSet<(usize, usize)>,
    /// replica whose operation is in progress (for counting preemptive context switches)
    pub cur: Option<usize>,
    pub quorum: usize,
    prev_epoch: Vec<u64>,
    obs: Vec<String>,
    /// diagnostics (not verdicts)
    pub diag_node_height_dup: bool,
}

static WORLD_SEQ: AtomicU64 = AtomicU64::new(0);

fn upper(a: &[u8]) -> String {
    String::from_utf8_lossy(a).to_ascii_uppercase()
}

fn poll_readable(fd: i32, what: &str) -> Res<()> {
    let mut p = libc::pollfd { fd, events: libc::POLLIN, revents: 0 };
    let deadline = Instant::now() + HARD_TIMEOUT;
    loop {
        let left = deadline.saturating_duration_since(Instant::now());
        if left.is_zero() {
            return Err(Interf(format!("timeout waiting for {what}")));
        }
        // SAFETY: `p` is a valid pollfd for the duration of the call.
        let rc = unsafe { libc::poll(&mut p, 1, left.as_millis().min(i32::MAX as u128) as i32) };
        if rc > 0 {
            return Ok(());
        }
        if rc < 0 && std::io::Error::last_os_error().kind() != ErrorKind::Interrupted {
            return Err(Interf(format!("poll failed while waiting for {what}")));
        }
    }
}

/// Bytes written to `fd` that the peer has not read yet (SIOCOUTQ).
fn unread_by_peer(fd: i32) -> i32 {
    let mut n: libc::c_int = 0;
    // SAFETY: SIOCOUTQ/TIOCOUTQ writes one int.
    let rc = unsafe { libc::ioctl(fd, libc::TIOCOUTQ, &mut n) };
    if rc != 0 {
        machinery("SIOCOUTQ is not available on Unix sockets here".into());
    }
    n
}

impl Conn {
    /// Drain whatever the client has written so far (never blocks).
    fn read_available(&mut self) -> Res<()> {
        let mut tmp = [0u8; 8192];
        loop {
            match self.stream.read(&mut tmp) {
                Ok(0) => {
                    self.eof = true;
                    return Ok(());
                }
                Ok(k) => self.buf.extend_from_slice(&tmp[..k]),
                Err(e) if e.kind() == ErrorKind::WouldBlock => return Ok(()),
                Err(e) if e.kind() == ErrorKind::Interrupted => {}
                Err(e) if e.kind() == ErrorKind::ConnectionReset => {
                    self.eof = true;
                    return Ok(());
                }
                Err(e) => return Err(Interf(format!("socket read: {e}"))),
            }
        }
    }
    fn next_command(&mut self) -> Option<Vec<Vec<u8>>> {
        match parse_command(&self.buf) {
            Ok(Some((cmd, used))) => {
                self.buf.drain(..used);
                Some(cmd)
            }
            Ok(None) => None,
            Err(e) => machinery(format!("client protocol: {e}")),
        }
    }
    fn send(&mut self, bytes: &[u8]) -> Res<()> {
        // replies are small; a single write on a Unix socket is atomic for them
        match self.stream.write(bytes) {
            Ok(k) if k == bytes.len() => Ok(()),
            Ok(k) => Err(Interf(format!("short write {k}/{}", bytes.len()))),
            Err(e) if matches!(e.kind(), ErrorKind::BrokenPipe | ErrorKind::ConnectionReset) => Ok(()),
            Err(e) => Err(Interf(format!("socket write: {e}"))),
        }
    }
}

impl World {
    pub fn new(cfg: Cfg) -> Res<World> {
        let _ = registry();
        let _ = scripts();
        let seq = WORLD_SEQ.fetch_add(1, std::sync::atomic::Ordering::Relaxed);
        let dir = std::env::temp_dir().join(format!("vhr-{}-{}", std::process::id(), seq));
        std::fs::create_dir_all(&dir).map_err(|e| Interf(format!("mkdir: {e}")))?;
        let mut w = World {
            dir,
            nodes: (0..cfg.nodes).map(|_| Node::new(cfg.exact_trim)).collect(),
            reps: vec![],
            queue: vec![],
            ghosts: vec![],
            next_conn: 0,
            blocks: Blocks::default(),
            tokens: HashMap::new(),
            wipes: 0,
            crashes: 0,
            partitions: 0,
            started: false,
            cut: BTreeSet::new(),
            cur: None,
            quorum: 0,
            prev_epoch: vec![0; cfg.nodes],
            obs: vec![],
            diag_node_height_dup: false,
            cfg,
        };
        for r in 0..w.cfg.replicas {
            w.reps.push(Replica { inc: 0, live: None, phase: Phase::Down, db: BTreeMap::new(), produced: 0, oplog: vec![] });
            w.spawn(r)?;
        }
        Ok(w)
    }

    fn spawn(&mut self, r: usize) -> Res<()> {
        let inc = self.reps[r].inc;
        let mut links = vec![];
        let mut urls = vec![];
        for n in 0..self.cfg.nodes {
            let path = self.dir.join(format!("r{r}i{inc}n{n}.sock"));
            let listener = UnixListener::bind(&path).map_err(|e| Interf(format!("bind {path:?}: {e}")))?;
            listener.set_nonblocking(true).map_err(|e| Interf(format!("nonblocking: {e}")))?;
            urls.push(format!("unix://{}", path.display()));
            links.push(Link { path, listener, conns: vec![] });
        }
        let shared = Arc::new(Shared { m: Mutex::new(Sh::default()), cv: Condvar::new() });
        let (btx, brx) = mpsc::sync_channel(1);
        let worker = take_worker()?;
        let tx = worker.tx.clone();
        tx.send(Cmd::Adopt { cfg: self.cfg.clone(), urls, shared: shared.clone(), boot: btx }).map_err(|_| Interf("worker gone".into()))?;
        let adapter = match brx.recv_timeout(HARD_TIMEOUT) {
            Ok(Ok(a)) => a,
            Ok(Err(e)) => machinery(format!("adapter construction failed: {e}")),
            Err(_) => return Err(Interf("replica thread did not boot".into())),
        };
        self.tokens.insert(adapter.verif_lease_owner_token().as_bytes().to_vec(), format!("r{r}.{inc}"));
        self.quorum = adapter.verif_quorum();
        self.reps[r].live = Some(Live { shared, tx, adapter: Some(adapter), links, seen_pub_started: 0 });
        self.reps[r].phase = Phase::Idle;
        self.reps[r].oplog.clear();
        Ok(())
    }

    // ----- naming helpers ---------------------------------------------------

    fn token_name(&self, t: &[u8]) -> String {
        self.tokens.get(t).cloned().unwrap_or_else(|| format!("?{}", String::from_utf8_lossy(t)))
    }

    fn data_tag(&self, d: &[u8]) -> String {
        self.blocks.by_data.get(d).cloned().unwrap_or_else(|| machinery("stream/argument carries block bytes no replica produced".into()))
    }

    fn s(a: &[u8]) -> String {
        String::from_utf8_lossy(a).to_string()
    }

    fn describe(&self, kind: Kind, argv: &[Vec<u8>]) -> String {
        match kind {
            Kind::Check => format!("check({})", self.token_name(&argv[0])),
            Kind::Promote => format!("promote({})", self.token_name(&argv[0])),
            Kind::Release => format!("release({})", self.token_name(&argv[0])),
            Kind::Write => format!("write(e{},{},h{},{})", Self::s(&argv[0]), self.token_name(&argv[1]), Self::s(&argv[2]), self.data_tag(&argv[3])),
            Kind::ReadLatest => "latest()".to_string(),
            Kind::ReadEntries => format!("entries(>={},max{})", Self::s(&argv[0]), Self::s(&argv[1])),
        }
    }

    /// Deterministic rendering of a reply: block payloads by tag, no stream ids.
    fn render(&self, r: &Resp) -> String {
        match r {
            Resp::Bulk(b) => match self.blocks.by_data.get(b) {
                Some(t) => t.clone(),
                None => {
                    if b.iter().all(|c| c.is_ascii_digit() || *c == b'-') && b.contains(&b'-') {
                        "<id>".into()
                    } else {
                        r.brief()
                    }
                }
            },
            Resp::Array(a) => format!("[{}]", a.iter().map(|x| self.render(x)).collect::<Vec<_>>().join(",")),
            o => o.brief(),
        }
    }

    pub fn last_height(&self, r: usize) -> u32 {
        self.reps[r].db.keys().next_back().copied().unwrap_or(0)
    }

    pub fn node_epoch(&self, n: usize) -> u64 {
        let key = format!("{LEASE_KEY}:epoch:token").into_bytes();
        self.nodes[n].strings.get(&key).and_then(|v| std::str::from_utf8(&v.val).ok()?.parse().ok()).unwrap_or(0)
    }

    pub fn lock_owner(&self, n: usize) -> Option<String> {
        self.nodes[n].strings.get(LEASE_KEY.as_bytes()).map(|v| self.token_name(&v.val))
    }

    /// (height, block tag, epoch) of every stream entry of node n, in stream order.
    pub fn stream(&self, n: usize) -> Vec<(String, String, String)> {
        let key = format!("{LEASE_KEY}:block:stream").into_bytes();
        let Some(s) = self.nodes[n].streams.get(&key) else { return vec![] };
        s.entries
            .iter()
            .map(|e| {
                let f = |name: &[u8]| e.fields.iter().find(|(k, _)| k == name).map(|(_, v)| v.clone()).unwrap_or_default();
                (Self::s(&f(b"height")), self.data_tag(&f(b"data")), Self::s(&f(b"epoch")))
            })
            .collect()
    }

    fn epoch_token(&self, r: usize) -> Option<u64> {
        self.reps[r].live.as_ref().and_then(|l| l.adapter.as_ref()).and_then(|a| a.verif_current_epoch_token())
    }

    // ----- letters -----------------------------------------------------------

    pub fn enabled(&self) -> Vec<Op> {
        let mut v = vec![];
        // Purely local steps first (sound priority: they commute with every letter of
        // another replica and of the environment, so postponing those loses nothing):
        //  * a replica that has a block ready commits/imports it now, or crashes before it does;
        //  * a crashed replica restarts (a replica that stays down = one that never ticks again).
        for (r, rep) in self.reps.iter().enumerate() {
            if matches!(rep.phase, Phase::ReadyToCommit(_) | Phase::ReadyToImport(_)) {
                v.push(Op::Commit(r));
                if self.crashes < self.cfg.max_crashes {
                    v.push(Op::Crash(r));
                }
                return v;
            }
        }
        if let Some(r) = self.reps.iter().position(|rep| rep.phase == Phase::Down) {
            return vec![Op::Restart(r)];
        }
        let max_epoch = (0..self.cfg.nodes).map(|n| self.node_epoch(n)).max().unwrap_or(0);
        // queued script calls: Deliver first
        let mut per: BTreeMap<(usize, usize), usize> = BTreeMap::new();
        let mut faults = vec![];
        let fine = self.cfg.fine_faults;
        let any_busy = self.reps.iter().any(|r| matches!(r.phase, Phase::Busy(_)));
        for r in 0..self.reps.len() {
            let batch = self.batch(r);
            if batch.len() > 1 {
                // whole fan-out at once; with fine faults every combination of fates (the deviation bound prunes)
                let mut combos: Vec<Vec<Fate>> = vec![vec![]];
                for i in &batch {
                    // a deferred read-only call is indistinguishable from a dropped one
                    let fates: &[Fate] = if !fine {
                        &[Fate::Deliver]
                    } else if self.queue[*i].kind.read_only() {
                        &[Fate::Deliver, Fate::Drop]
                    } else {
                        &[Fate::Deliver, Fate::Drop, Fate::Defer]
                    };
                    combos = combos
                        .into_iter()
                        .flat_map(|c| {
                            fates.iter().map(move |f| {
                                let f = *f;
                                let mut c2 = c.clone();
                                c2.push(f);
                                c2
                            })
                        })
                        .collect();
                }
                combos.sort_by_key(|c| c.iter().filter(|f| **f != Fate::Deliver).count());
                for c in combos {
                    if c.iter().all(|f| *f == Fate::Deliver) {
                        v.push(Op::Batch { r, fates: c });
                    } else {
                        faults.push(Op::Batch { r, fates: c });
                    }
                }
            }
        }
        for c in &self.queue {
            let k = per.entry((c.r, c.n)).or_insert(0);
            let orphan = self.is_orphan(c);
            let single = Op::Exec { r: c.r, n: c.n, k: *k, fate: Fate::Deliver };
            let costly = self.is_partial(&single) || self.is_preemption(&single);
            if costly {
                // splitting a fan-out / preempting is itself a deviation
                if fine {
                    faults.push(single);
                }
            } else {
                v.push(single);
            }
            // a straggler that is never delivered is a dropped one: no Drop/Defer letters for it
            if !orphan && fine {
                faults.push(Op::Exec { r: c.r, n: c.n, k: *k, fate: Fate::Drop });
                if !c.kind.read_only() {
                    faults.push(Op::Exec { r: c.r, n: c.n, k: *k, fate: Fate::Defer });
                }
            }
            *k += 1;
        }
        for g in 0..self.ghosts.len() {
            v.push(Op::GhostExec(g));
        }
        for (r, rep) in self.reps.iter().enumerate() {
            let mut mine = vec![];
            match &rep.phase {
                Phase::Idle => {
                    let standby = r > 0 && self.last_height(0) < self.cfg.standby_until;
                    if self.last_height(r) < self.cfg.max_height && max_epoch < self.cfg.max_epoch && !standby {
                        mine.push(Op::Tick(r));
                    }
                }
                _ => {}
            }
            // P2P sync touches only r's own database: its timing matters only relative to r's own ticks
            if !mine.is_empty() && self.cfg.allow_sync && self.sync_source(r).is_some() {
                mine.push(Op::Sync(r));
            }
            for op in mine {
                if fine || !self.is_preemption(&op) {
                    v.push(op);
                }
            }
            if rep.phase != Phase::Down && !matches!(rep.phase, Phase::Busy(_)) {
                for n in 0..self.cfg.nodes {
                    if fine && self.cut.contains(&(r, n)) {
                        v.push(Op::Heal { r, n });
                    }
                }
            }
        }
        let lock = LEASE_KEY.as_bytes();
        let held: Vec<usize> = (0..self.cfg.nodes).filter(|n| self.nodes[*n].strings.contains_key(lock)).collect();
        if !held.is_empty() && (fine || !any_busy) {
            v.push(Op::ExpireAll);
        }
        v.extend(faults);
        if self.cfg.expire_one && (fine || !any_busy) {
            for n in &held {
                v.push(Op::Expire(*n));
            }
        }
        for (r, rep) in self.reps.iter().enumerate() {
            match &rep.phase {
                Phase::Down => {}
                p => {
                    // without fine faults a crash happens between operations or in the middle of a publish
                    let boundary = !matches!(p, Phase::Busy(Busy::LeaderState(_) | Busy::Release | Busy::ReleaseAfterFailedPublish));
                    if self.crashes < self.cfg.max_crashes && (fine || boundary) {
                        v.push(Op::Crash(r));
                    }
                    if *p == Phase::Idle && self.cfg.allow_release && (fine || !any_busy) {
                        v.push(Op::Release(r));
                    }
                    // without fine faults partitions are static: cut before anything happens, never healed
                    if !matches!(p, Phase::Busy(_)) && self.partitions < self.cfg.max_partitions && (fine || !self.started) {
                        // static cuts: the nodes are interchangeable before anything has happened,
                        // so cutting replica r from node 0 stands for cutting it from any one node
                        let nodes = if fine { self.cfg.nodes } else { 1 };
                        for n in 0..nodes {
                            if !self.cut.contains(&(r, n)) {
                                v.push(Op::Partition { r, n });
                            }
                        }
                    }
                }
            }
        }
        if self.wipes < self.cfg.budget && (fine || !any_busy) {
            for n in 0..self.cfg.nodes {
                v.push(Op::WipeNode(n));
            }
        }
        v
    }

    fn is_orphan(&self, c: &Call) -> bool {
        match (c.sync_pub, self.reps[c.r].live.as_ref()) {
            (Some(seq), Some(l)) => l.shared.peek(|s| s.pub_finished >= seq),
            _ => false,
        }
    }

    /// Apply one letter to the real adapters / MiniRedis. Returns the observation.
    /// The replica that acts in `op` (None: environment letter, incl. the late
    /// execution of a straggler/ghost call nobody waits for).
    fn actor(&self, op: &Op) -> Option<usize> {
        match op {
            Op::Tick(r) | Op::Commit(r) | Op::Release(r) | Op::Sync(r) | Op::Batch { r, .. } => Some(*r),
            Op::Exec { r, n, k, .. } => {
                let c = self.queue.iter().filter(|c| c.r == *r && c.n == *n).nth(*k)?;
                (!self.is_orphan(c)).then_some(*r)
            }
            _ => None,
        }
    }

    /// Indices (into the queue) of the calls of replica r's current join_all fan-out:
    /// its queued async calls (the next fan-out is only issued once all are answered).
    fn batch(&self, r: usize) -> Vec<usize> {
        let mut v: Vec<usize> = self.queue.iter().enumerate().filter(|(_, c)| c.r == r && c.sync_pub.is_none()).map(|(i, _)| i).collect();
        v.sort_by_key(|i| self.queue[*i].n);
        v
    }

    /// Is `op` the delivery of a single call out of a join_all fan-out that still has several?
    pub fn is_partial(&self, op: &Op) -> bool {
        match op {
            Op::Exec { r, n, k, .. } => {
                let Some(c) = self.queue.iter().filter(|c| c.r == *r && c.n == *n).nth(*k) else { return false };
                c.sync_pub.is_none() && self.batch(*r).len() > 1
            }
            _ => false,
        }
    }

    /// Structural deviation cost of `op` here: preemptive switch, split fan-out, or a
    /// whole-lease expiry while some replica is in the middle of an operation (when
    /// every replica is between operations, a lease that runs out is ordinary life).
    pub fn structural_cost(&self, op: &Op) -> u32 {
        let busy = self.reps.iter().any(|r| matches!(r.phase, Phase::Busy(_)));
        self.is_preemption(op) as u32 + self.is_partial(op) as u32 + (matches!(op, Op::ExpireAll) && busy) as u32
    }

    /// Does `op` switch to another replica while the current one is in the middle of an operation?
    pub fn is_preemption(&self, op: &Op) -> bool {
        match (self.cur, self.actor(op)) {
            (Some(c), Some(a)) => c != a && matches!(self.reps[c].phase, Phase::Busy(_)),
            _ => false,
        }
    }

    fn sync_source(&self, r: usize) -> Option<String> {
        let h = self.last_height(r) + 1;
        self.reps.iter().enumerate().filter(|(i, _)| *i != r).find_map(|(_, o)| o.db.get(&h).cloned())
    }

    pub fn apply(&mut self, op: &Op) -> Res<String> {
        let actor = self.actor(op);
        let res = self.apply_inner(op);
        if let Some(a) = actor {
            self.cur = Some(a);
        }
        if let Some(c) = self.cur {
            if !matches!(self.reps[c].phase, Phase::Busy(_)) {
                self.cur = None;
            }
        }
        res
    }

    fn apply_inner(&mut self, op: &Op) -> Res<String> {
        self.obs.clear();
        match op {
            Op::Partition { r, n } => {
                self.partitions += 1;
                self.cut.insert((*r, *n));
            }
            Op::Heal { r, n } => {
                self.cut.remove(&(*r, *n));
            }
            Op::Sync(r) => {
                let r = *r;
                let tag = self.sync_source(r).unwrap_or_else(|| machinery(format!("Sync({r}) without source")));
                let h = self.tag_height(&tag);
                self.obs.push("p2p".into());
                self.commit(r, h, tag);
            }
            Op::Tick(r) => {
                let r = *r;
                if self.reps[r].phase != Phase::Idle {
                    machinery(format!("Tick({r}) while {:?}", self.reps[r].phase));
                }
                let next = self.last_height(r) + 1;
                self.started = true;
                self.start(r, Cmd::LeaderState(next), Busy::LeaderState(next))?;
            }
            Op::Exec { r, n, k, fate } => {
                let idx = self
                    .queue
                    .iter()
                    .enumerate()
                    .filter(|(_, c)| c.r == *r && c.n == *n)
                    .map(|(i, _)| i)
                    .nth(*k)
                    .unwrap_or_else(|| machinery(format!("no queued call {op:?}")));
                self.exec(idx, *fate)?;
            }
            Op::Batch { r, fates } => {
                let calls: Vec<(usize, u64)> = self.batch(*r).into_iter().map(|i| (self.queue[i].n, self.queue[i].conn)).collect();
                if calls.len() != fates.len() || calls.len() < 2 {
                    machinery(format!("{op:?} does not match the fan-out in flight ({} calls)", calls.len()));
                }
                for ((n, conn), fate) in calls.into_iter().zip(fates.iter()) {
                    let idx = self.queue.iter().position(|c| c.r == *r && c.n == n && c.conn == conn).unwrap_or_else(|| machinery("fan-out call vanished".into()));
                    self.exec(idx, *fate)?;
                }
            }
            Op::Commit(r) => {
                let r = *r;
                match self.reps[r].phase.clone() {
                    Phase::ReadyToCommit(tag) => {
                        let h = self.tag_height(&tag);
                        self.commit(r, h, tag);
                        self.reps[r].phase = Phase::Idle;
                    }
                    Phase::ReadyToImport(mut tags) => {
                        let tag = tags.remove(0);
                        let h = self.tag_height(&tag);
                        // MainTask: skip blocks the DB already has; the importer refuses
                        // anything but the next height
                        let last = self.last_height(r);
                        if h <= last {
                            self.obs.push(format!("skip {tag}@{h}"));
                        } else if h == last + 1 {
                            self.commit(r, h, tag);
                        } else {
                            self.obs.push(format!("import of {tag}@{h} refused (next is {})", last + 1));
                        }
                        self.reps[r].phase = if tags.is_empty() { Phase::Idle } else { Phase::ReadyToImport(tags) };
                    }
                    p => machinery(format!("Commit({r}) while {p:?}")),
                }
            }
            Op::GhostExec(g) => {
                let g = self.ghosts.remove(*g);
                let (_, script) = &scripts().by_sha[&g.sha];
                let reply = self.nodes[g.n].eval(script, g.keys.clone(), g.argv.clone());
                self.obs.push(format!("ghost n{} {} => {}", g.n, g.desc, self.render(&reply)));
            }
            Op::Expire(n) => {
                let x = self.nodes[*n].expire(LEASE_KEY.as_bytes());
                self.obs.push(format!("expired={x}"));
            }
            Op::ExpireAll => {
                for n in 0..self.cfg.nodes {
                    self.nodes[n].expire(LEASE_KEY.as_bytes());
                }
            }
            Op::Crash(r) => {
                self.crashes += 1;
                // calls in flight die with the connections (a write that did execute before
                // the crash is the schedule "deliver it, then crash")
                self.kill(*r, false)?;
                self.cut.retain(|(cr, _)| cr != r);
            }
            Op::Restart(r) => {
                self.reps[*r].inc += 1;
                self.spawn(*r)?;
            }
            Op::Release(r) => {
                self.start(*r, Cmd::Release, Busy::Release)?;
            }
            Op::WipeNode(n) => {
                let n = *n;
                self.wipes += 1;
                self.nodes[n].wipe();
                self.prev_epoch[n] = 0;
                self.ghosts.retain(|g| g.n != n);
                // the restart resets every connection of that node: calls in flight fail
                while let Some(idx) = self.queue.iter().position(|c| c.n == n) {
                    self.exec(idx, Fate::Drop)?;
                }
            }
        }
        Ok(self.obs.join("; "))
    }

    fn tag_height(&self, tag: &str) -> u32 {
        (*self.blocks.by_tag[tag].entity.header().height()).into()
    }

    fn commit(&mut self, r: usize, h: u32, tag: String) {
        self.obs.push(format!("r{r} commits {tag}@{h}"));
        if self.reps[r].db.insert(h, tag).is_some() {
            machinery("driver committed a height twice".into());
        }
    }

    fn produce(&mut self, r: usize, h: u32) -> String {
        self.reps[r].produced += 1;
        let k = self.reps[r].produced;
        let tag = format!("B{r}.{k}");
        let mut block = Block::default();
        block.header_mut().set_block_height(h.into());
        block.header_mut().set_time(Tai64(1_000_000 + (r as u64) * 10_000 + k as u64));
        block.header_mut().recalculate_metadata();
        let sealed = SealedBlock { entity: block, consensus: Consensus::PoA(Default::default()) };
        let data = postcard::to_allocvec(&sealed).expect("postcard");
        self.blocks.by_id.insert(sealed.entity.id(), tag.clone());
        self.blocks.by_data.insert(data, tag.clone());
        self.blocks.by_tag.insert(tag.clone(), sealed);
        tag
    }

    fn parks(&self, r: usize) -> u64 {
        self.reps[r].live.as_ref().unwrap().shared.peek(|s| s.parks)
    }

    fn start(&mut self, r: usize, cmd: Cmd, busy: Busy) -> Res<()> {
        let p0 = self.parks(r);
        self.reps[r].oplog.clear();
        self.reps[r].phase = Phase::Busy(busy);
        self.reps[r].live.as_ref().unwrap().tx.send(cmd).map_err(|_| Interf("replica thread gone".into()))?;
        self.drive(r, p0, None)
    }

    /// Let replica r run until it needs the explorer again (or its operation,
    /// including the follow-ups MainTask/importer perform without pausing, is over).
    fn drive(&mut self, r: usize, mut p0: u64, mut wrote: Option<i32>) -> Res<()> {
        loop {
            let settled = self.settle(r, p0, wrote.take())?;
            let out = match settled {
                Settled::Waiting => return self.fail_cut_calls(r),
                Settled::Done(out) => out,
            };
            let Phase::Busy(busy) = self.reps[r].phase.clone() else { machinery("operation result without operation".into()) };
            let brief = |e: &str| e.chars().take(48).collect::<String>();
            match (busy, out) {
                (Busy::LeaderState(_), OpOut::Follower) => {
                    self.obs.push(format!("r{r}: follower"));
                    self.reps[r].phase = Phase::Idle;
                    return Ok(());
                }
                (Busy::LeaderState(h), OpOut::Leader) => {
                    let tag = self.produce(r, h);
                    self.obs.push(format!("r{r}: leader, produces {tag}@{h}"));
                    let block = self.blocks.by_tag[&tag].clone();
                    p0 = self.parks(r);
                    self.reps[r].oplog.clear();
                    self.reps[r].phase = Phase::Busy(Busy::Publish(tag));
                    self.reps[r].live.as_ref().unwrap().tx.send(Cmd::Publish(Box::new(block))).map_err(|_| Interf("replica thread gone".into()))?;
                }
                (Busy::LeaderState(_), OpOut::Unreconciled(blocks)) => {
                    let tags: Vec<String> = blocks
                        .iter()
                        .map(|b| self.blocks.by_id.get(&b.entity.id()).cloned().unwrap_or_else(|| machinery("adapter returned a block nobody produced".into())))
                        .collect();
                    self.obs.push(format!("r{r}: unreconciled {tags:?}"));
                    self.reps[r].phase = Phase::ReadyToImport(tags);
                    return Ok(());
                }
                (Busy::LeaderState(_), OpOut::LsErr(e)) => {
                    self.obs.push(format!("r{r}: leader_state error: {}", brief(&e)));
                    self.reps[r].phase = Phase::Idle;
                    return Ok(());
                }
                (Busy::Publish(tag), OpOut::PublishOk) => {
                    self.obs.push(format!("r{r}: published {tag}"));
                    self.reps[r].phase = Phase::ReadyToCommit(tag);
                    return Ok(());
                }
                (Busy::Publish(tag), OpOut::PublishErr(e)) => {
                    // importer returns the error, the block is not committed, MainTask releases the lease
                    self.obs.push(format!("r{r}: publish of {tag} failed: {}", brief(&e)));
                    p0 = self.parks(r);
                    self.reps[r].oplog.clear();
                    self.reps[r].phase = Phase::Busy(Busy::ReleaseAfterFailedPublish);
                    self.reps[r].live.as_ref().unwrap().tx.send(Cmd::Release).map_err(|_| Interf("replica thread gone".into()))?;
                }
                (Busy::ReleaseAfterFailedPublish | Busy::Release, OpOut::Released(res)) => {
                    self.obs.push(format!("r{r}: release {}", if res.is_ok() { "ok" } else { "err" }));
                    self.reps[r].phase = Phase::Idle;
                    return Ok(());
                }
                (b, o) => machinery(format!("unexpected operation result {o:?} while {b:?}")),
            }
        }
    }

    /// Replica r waits for the explorer: calls it sent over a cut link fail right away, unexecuted.
    fn fail_cut_calls(&mut self, r: usize) -> Res<()> {
        match self.queue.iter().position(|c| c.r == r && self.cut.contains(&(c.r, c.n)) && !self.is_orphan(c)) {
            Some(idx) => self.exec(idx, Fate::Drop), // ends by driving r again
            None => Ok(()),
        }
    }

    /// `wrote`: the explorer's end of the connection it has just written one reply
    /// to; the replica counts as parked again only once that reply was consumed.
    fn settle(&mut self, r: usize, mut p0: u64, mut wrote: Option<i32>) -> Res<Settled> {
        enum Ev {
            Done(OpOut),
            Pub(u64, usize),
            Parked(u64),
        }
        loop {
            let (shared, seen) = {
                let l = self.reps[r].live.as_ref().unwrap();
                (l.shared.clone(), l.seen_pub_started)
            };
            let ev = shared.wait("replica progress", |s| {
                if let Some(o) = s.done.take() {
                    Some(Ev::Done(o))
                } else if s.pub_started > seen {
                    Some(Ev::Pub(s.pub_started, s.pub_nodes))
                } else if s.parks > p0 && s.parks == s.unparks + 1 && wrote.map_or(true, |fd| unread_by_peer(fd) == 0) {
                    Some(Ev::Parked(s.parks))
                } else {
                    None
                }
            })?;
            match ev {
                Ev::Done(o) => return Ok(Settled::Done(o)),
                Ev::Pub(seq, nodes) => {
                    if seq != seen + 1 || nodes != self.cfg.nodes {
                        machinery(format!("publish fan-out bookkeeping: seq {seq} after {seen}, {nodes} nodes"));
                    }
                    self.reps[r].live.as_mut().unwrap().seen_pub_started = seq;
                    self.intake_sync(r, seq)?;
                    shared.wait("publish collector to block", |s| (s.pub_about == s.pub_recv + 1).then_some(()))?;
                    return Ok(Settled::Waiting);
                }
                Ev::Parked(p) => {
                    wrote = None;
                    match self.scan_async(r)? {
                        Scan::Fresh => p0 = p,
                        Scan::Handshake(n, cid) => {
                            let l = self.reps[r].live.as_mut().unwrap();
                            let c = l.links[n].conns.iter_mut().find(|c| c.id == cid).unwrap();
                            let bytes = b"+OK\r\n".repeat(c.pending_hs);
                            c.pending_hs = 0;
                            c.send(&bytes)?;
                            wrote = Some(c.stream.as_raw_fd());
                            p0 = p;
                        }
                        Scan::Quiet => return Ok(Settled::Waiting),
                    }
                }
            }
        }
    }

    fn intake_call(&mut self, r: usize, n: usize, conn: u64, sync_pub: Option<u64>, cmd: Vec<Vec<u8>>) {
        let sha = Self::s(&cmd[1]);
        let Some((kind, _)) = scripts().by_sha.get(&sha) else {
            machinery(format!("EVALSHA of unknown script {sha}: the adapter's compiled-in script differs from the repository file"))
        };
        let nk: usize = Self::s(&cmd[2]).parse().unwrap_or_else(|_| machinery("EVALSHA numkeys".into()));
        let keys = cmd[3..3 + nk].to_vec();
        let argv = cmd[3 + nk..].to_vec();
        let desc = self.describe(*kind, &argv);
        if *kind == Kind::Write && matches!(self.reps[r].phase, Phase::Busy(Busy::LeaderState(_))) {
            self.obs.push(format!("r{r}: repair-write to n{n}"));
        }
        self.queue.push(Call { r, n, conn, kind: *kind, sha, keys, argv, sync_pub, desc });
    }

    /// The runtime thread of replica r is parked: collect what its async connections sent.
    fn scan_async(&mut self, r: usize) -> Res<Scan> {
        let nodes = self.cfg.nodes;
        let mut fresh = false;
        let mut hs = None;
        let mut calls = vec![];
        for n in 0..nodes {
            let l = self.reps[r].live.as_mut().unwrap();
            loop {
                match l.links[n].listener.accept() {
                    Ok((s, _)) => {
                        s.set_nonblocking(true).map_err(|e| Interf(format!("nonblocking: {e}")))?;
                        self.next_conn += 1;
                        l.links[n].conns.push(Conn { id: self.next_conn, stream: s, buf: vec![], got_command: false, pending_hs: 0, eof: false, sync_pub: None });
                    }
                    Err(e) if e.kind() == ErrorKind::WouldBlock => break,
                    Err(e) => return Err(Interf(format!("accept: {e}"))),
                }
            }
            for c in l.links[n].conns.iter_mut() {
                if c.sync_pub.is_some() {
                    continue;
                }
                c.read_available()?;
                while let Some(cmd) = c.next_command() {
                    c.got_command = true;
                    match upper(&cmd[0]).as_str() {
                        "CLIENT" | "SELECT" => c.pending_hs += 1,
                        "EVALSHA" => calls.push((n, c.id, cmd)),
                        o => machinery(format!("client command {o} is outside what the fake server speaks")),
                    }
                }
                if !c.eof && (!c.got_command || !c.buf.is_empty()) {
                    fresh = true;
                }
                if c.pending_hs > 0 && hs.is_none() && !c.eof {
                    hs = Some((n, c.id));
                }
            }
            l.links[n].conns.retain(|c| !c.eof || c.sync_pub.is_some());
        }
        for (n, cid, cmd) in calls {
            self.intake_call(r, n, cid, None, cmd);
        }
        Ok(if fresh {
            Scan::Fresh
        } else if let Some((n, c)) = hs {
            Scan::Handshake(n, c)
        } else {
            Scan::Quiet
        })
    }

    /// `publish_block_on_all_nodes` started: exactly one fresh blocking connection
    /// per node arrives, performs the client handshake and sends one EVALSHA.
    fn intake_sync(&mut self, r: usize, seq: u64) -> Res<()> {
        for n in 0..self.cfg.nodes {
            let stream = {
                let l = self.reps[r].live.as_ref().unwrap();
                loop {
                    match l.links[n].listener.accept() {
                        Ok((s, _)) => break s,
                        Err(e) if e.kind() == ErrorKind::WouldBlock => poll_readable(l.links[n].listener.as_raw_fd(), "publish thread to connect")?,
                        Err(e) => return Err(Interf(format!("accept: {e}"))),
                    }
                }
            };
            stream.set_nonblocking(true).map_err(|e| Interf(format!("nonblocking: {e}")))?;
            self.next_conn += 1;
            let mut c = Conn { id: self.next_conn, stream, buf: vec![], got_command: false, pending_hs: 0, eof: false, sync_pub: Some(seq) };
            let cmd = loop {
                match c.next_command() {
                    Some(cmd) => match upper(&cmd[0]).as_str() {
                        "CLIENT" | "SELECT" => c.send(b"+OK\r\n")?,
                        "EVALSHA" => break cmd,
                        o => machinery(format!("client command {o} is outside what the fake server speaks")),
                    },
                    None => {
                        if c.eof {
                            return Err(Interf("publish thread hung up before sending its script call".into()));
                        }
                        poll_readable(c.stream.as_raw_fd(), "publish thread to send")?;
                        c.read_available()?;
                    }
                }
            };
            let id = c.id;
            self.reps[r].live.as_mut().unwrap().links[n].conns.push(c);
            self.intake_call(r, n, id, Some(seq), cmd);
        }
        Ok(())
    }

    fn exec(&mut self, idx: usize, fate: Fate) -> Res<()> {
        let call = self.queue.remove(idx);
        let (r, n) = (call.r, call.n);
        let reply = match fate {
            Fate::Deliver => {
                let (_, script) = &scripts().by_sha[&call.sha];
                self.nodes[n].eval(script, call.keys.clone(), call.argv.clone())
            }
            Fate::Drop => Resp::err("ERR verif: request lost"),
            Fate::Defer => {
                if call.kind.read_only() {
                    machinery("Defer offered for a read-only call".into());
                }
                self.ghosts.push(Ghost { n, sha: call.sha.clone(), keys: call.keys.clone(), argv: call.argv.clone(), desc: call.desc.clone() });
                Resp::err("ERR verif: request timed out")
            }
        };
        let line = format!("r{r}>n{n} {} => {}", call.desc, self.render(&reply));
        self.obs.push(line.clone());
        let bytes = reply.to_bytes();
        let shared = self.reps[r].live.as_ref().unwrap().shared.clone();
        match call.sync_pub {
            None => {
                let p0 = self.parks(r);
                self.reps[r].oplog.push(line);
                let l = self.reps[r].live.as_mut().unwrap();
                let c = l.links[n].conns.iter_mut().find(|c| c.id == call.conn).unwrap_or_else(|| machinery("connection of a queued call vanished".into()));
                c.send(&bytes)?;
                let fd = c.stream.as_raw_fd();
                self.drive(r, p0, Some(fd))
            }
            Some(seq) => {
                let (active, recv0, p0) = shared.peek(|s| (s.pub_finished < seq, s.pub_recv, s.parks));
                {
                    let l = self.reps[r].live.as_mut().unwrap();
                    let pos = l.links[n].conns.iter().position(|c| c.id == call.conn).unwrap_or_else(|| machinery("connection of a queued call vanished".into()));
                    let mut c = l.links[n].conns.remove(pos);
                    c.send(&bytes)?;
                    // the publish thread reads the reply, drops its connection, then reports
                    loop {
                        c.read_available()?;
                        if !c.buf.is_empty() {
                            machinery("publish thread sent more than one command".into());
                        }
                        if c.eof {
                            break;
                        }
                        poll_readable(c.stream.as_raw_fd(), "publish thread to hang up")?;
                    }
                }
                if !active {
                    // straggler of a fan-out that already returned: result is discarded by the adapter
                    return Ok(());
                }
                self.reps[r].oplog.push(line);
                let finished = shared.wait("publish collector to take the result", |s| {
                    if s.pub_recv > recv0 && s.pub_finished >= seq {
                        Some(true)
                    } else if s.pub_recv > recv0 && s.pub_about == s.pub_recv + 1 {
                        Some(false)
                    } else {
                        None
                    }
                })?;
                if finished {
                    self.drive(r, p0, None)
                } else {
                    self.fail_cut_calls(r)
                }
            }
        }
    }

    /// Crash (or final teardown) of replica r: nothing it does from now on can reach a node.
    fn kill(&mut self, r: usize, keep_ghosts: bool) -> Res<()> {
        let Some(mut live) = self.reps[r].live.take() else { return Ok(()) };
        let mine: Vec<Call> = self.queue.iter().filter(|c| c.r == r).cloned().collect();
        self.queue.retain(|c| c.r != r);
        if keep_ghosts {
            for c in mine.into_iter().filter(|c| !c.kind.read_only()) {
                self.ghosts.push(Ghost { n: c.n, sha: c.sha, keys: c.keys, argv: c.argv, desc: c.desc });
            }
        }
        for l in live.links.drain(..) {
            let _ = std::fs::remove_file(&l.path);
            drop(l);
        }
        self.reps[r].phase = Phase::Down;
        self.reps[r].oplog.clear();
        // Every pending and future request of the dying incarnation now fails locally
        // (no socket is left); whatever it still does cannot reach a node, so nobody
        // waits for it: the worker unwinds the operation in flight, then retires.
        live.adapter = None;
        let _ = live.tx.send(Cmd::Retire);
        Ok(())
    }

    // ----- canonical state ---------------------------------------------------

    pub fn canon(&self) -> Vec<u8> {
        let mut s = String::new();
        for n in 0..self.cfg.nodes {
            s += &format!("N{n}:{:?}/{}/{:?}|", self.lock_owner(n), self.node_epoch(n), self.stream(n));
        }
        for (r, rep) in self.reps.iter().enumerate() {
            // join_all / the publish collector index replies by node, not by arrival order
            let mut oplog = if matches!(rep.phase, Phase::Busy(_)) { rep.oplog.clone() } else { vec![] };
            oplog.sort();
            s += &format!("R{r}:i{}/{:?}/{:?}/p{}/e{:?}/{:?}|", rep.inc, rep.phase, rep.db, rep.produced, self.epoch_token(r), oplog);
        }
        // queued calls: order inside one (replica, node) lane matters, lanes are independent
        let mut lanes: BTreeMap<(usize, usize), Vec<String>> = BTreeMap::new();
        for c in &self.queue {
            lanes.entry((c.r, c.n)).or_default().push(format!("{}{}", c.desc, if self.is_orphan(c) { "~" } else { "" }));
        }
        s += &format!("Q{lanes:?}|");
        let mut g: Vec<String> = self.ghosts.iter().map(|g| format!("n{}{}", g.n, g.desc)).collect();
        g.sort();
        s += &format!("G{g:?}|w{}c{}p{}cut{:?}cur{:?}st{}", self.wipes, self.crashes, self.partitions, self.cut, self.cur, self.started);
        s.into_bytes()
    }

    // ----- oracles: the statement of C25 ------------------------------------

    /// Structural class of a fork/duplicate at height `h` (part of the violation signature).
    fn cause(&self, h: u32) -> &'static str {
        let hs = h.to_string();
        let mut dup = false;
        for n in 0..self.cfg.nodes {
            let st = self.stream(n);
            let at: Vec<usize> = st.iter().enumerate().filter(|(_, e)| e.0 == hs).map(|(i, _)| i).collect();
            let tags: BTreeSet<&String> = at.iter().map(|i| &st[*i].1).collect();
            if tags.len() > 1 {
                dup = true;
                let (first, last) = (at[0], *at.last().unwrap());
                let inverted = st[first..last].iter().any(|e| e.0.parse::<u32>().map(|x| x < h).unwrap_or(false));
                if inverted {
                    return "two-blocks-on-one-node-after-lower-height-was-appended-later";
                }
            }
        }
        if dup {
            "two-blocks-on-one-node"
        } else {
            "no-node-holds-two-blocks"
        }
    }

    pub fn check(&mut self) -> Result<(), mcx::Violation> {
        // NoFork: no two replicas commit different blocks at the same height
        let mut by_h: BTreeMap<u32, BTreeSet<&String>> = BTreeMap::new();
        for rep in &self.reps {
            for (h, t) in &rep.db {
                by_h.entry(*h).or_default().insert(t);
            }
        }
        for (h, tags) in &by_h {
            if tags.len() > 1 {
                let dbs: Vec<_> = self.reps.iter().map(|r| &r.db).collect();
                return Err(mcx::viol(
                    format!("C25:NoFork:{}", self.cause(*h)),
                    format!("expected: every replica that committed height {h} committed the same block; observed: {tags:?} (local DBs {dbs:?}, streams {:?})", self.streams()),
                ));
            }
        }
        // QuorumUnique: at most one block per height present on >= quorum nodes
        let mut presence: BTreeMap<(String, String), BTreeSet<usize>> = BTreeMap::new();
        for n in 0..self.cfg.nodes {
            let mut heights = BTreeSet::new();
            for (h, t, _) in self.stream(n) {
                if !heights.insert(h.clone()) {
                    self.diag_node_height_dup = true;
                }
                presence.entry((h, t)).or_default().insert(n);
            }
        }
        let mut quorate: BTreeMap<&String, Vec<&String>> = BTreeMap::new();
        for ((h, t), ns) in &presence {
            if ns.len() >= self.quorum {
                quorate.entry(h).or_default().push(t);
            }
        }
        for (h, ts) in &quorate {
            if ts.len() > 1 {
                return Err(mcx::viol(
                    format!("C25:QuorumUnique:{}", self.cause(h.parse().unwrap_or(0))),
                    format!("expected: at most one block at height {h} on >= {} nodes; observed: {ts:?} (streams {:?})", self.quorum, self.streams()),
                ));
            }
        }
        // EpochMonotone: per node, never decreases (a WipeNode resets the floor itself)
        for n in 0..self.cfg.nodes {
            let e = self.node_epoch(n);
            if e < self.prev_epoch[n] {
                return Err(mcx::viol("C25:EpochMonotone", format!("expected: epoch of node {n} >= {}; observed: {e}", self.prev_epoch[n])));
            }
            self.prev_epoch[n] = e;
        }
        Ok(())
    }

    pub fn streams(&self) -> Vec<Vec<(String, String, String)>> {
        (0..self.cfg.nodes).map(|n| self.stream(n)).collect()
    }
}

impl Drop for World {
    fn drop(&mut self) {
        for r in 0..self.reps.len() {
            let _ = self.kill(r, false);
        }
        let _ = std::fs::remove_dir_all(&self.dir);
    }
}
