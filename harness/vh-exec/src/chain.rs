//! Plumbing around the real executor: the harness' key-value store (a full
//! column dump per height, so historical views are exact), the relayer mock,
//! block production / validation / commit wrappers.
use crate::universe::{Universe, STF_VERSION, TIME0};
use fuel_core_executor::{
    executor::OnceTransactionsSource,
    ports::{MaybeCheckedTransaction, RelayerPort, TransactionsSource},
};
use fuel_core_storage::{
    column::Column,
    iter::{BoxedIter, IntoBoxedIter, IterDirection, IterableStore},
    kv_store::{KVItem, KeyItem, KeyValueInspect, StorageColumn, Value, WriteOperation},
    structured_storage::StructuredStorage,
    tables::{FuelBlocks, SealedBlockConsensus, Transactions},
    transactional::{AtomicView, Changes, ConflictPolicy, HistoricalView, Modifiable, StorageTransaction},
    Result as StorageResult, StorageAsMut, StorageAsRef,
};
use fuel_core_types::{
    blockchain::{
        block::Block,
        consensus::{poa::PoAConsensus, Consensus},
        header::{ApplicationHeader, ConsensusHeader, PartialBlockHeader},
        primitives::DaBlockHeight,
    },
    fuel_tx::{Bytes32, ContractId, Transaction, UniqueIdentifier},
    fuel_types::BlockHeight,
    services::{
        block_producer::Components,
        executor::{Error as ExecutorError, ExecutionResult, ValidationResult},
        relayer::Event,
    },
    tai64::Tai64,
};
use fuel_core_upgradable_executor::{config::Config, executor::Executor};
use std::{collections::BTreeMap, sync::Arc};

/// Full key/value dump of every on-chain column: (column id, key) -> value.
pub type Dump = BTreeMap<(u32, Vec<u8>), Value>;
/// Canonical form of a `Changes` set.
pub type ChangeList = Vec<(u32, Vec<u8>, Option<Vec<u8>>)>;

/// Immutable snapshot of the on-chain key-value state.
#[derive(Clone, Debug, Default)]
pub struct MemDb(pub Arc<Dump>);

impl KeyValueInspect for MemDb {
    type Column = Column;
    fn get(&self, key: &[u8], column: Column) -> StorageResult<Option<Value>> {
        Ok(self.0.get(&(column.id(), key.to_vec())).cloned())
    }
}

impl MemDb {
    fn range(&self, column: Column, prefix: Option<&[u8]>, start: Option<&[u8]>, direction: IterDirection) -> Vec<(Vec<u8>, Value)> {
        let c = column.id();
        let mut v: Vec<(Vec<u8>, Value)> = self
            .0
            .range((c, vec![])..(c + 1, vec![]))
            .filter(|((_, k), _)| prefix.map(|p| k.starts_with(p)).unwrap_or(true))
            .filter(|((_, k), _)| match (start, direction) {
                (Some(s), IterDirection::Forward) => k.as_slice() >= s,
                (Some(s), IterDirection::Reverse) => k.as_slice() <= s,
                (None, _) => true,
            })
            .map(|((_, k), val)| (k.clone(), val.clone()))
            .collect();
        if direction == IterDirection::Reverse {
            v.reverse();
        }
        v
    }
}

impl IterableStore for MemDb {
    fn iter_store(&self, column: Column, prefix: Option<&[u8]>, start: Option<&[u8]>, direction: IterDirection) -> BoxedIter<'_, KVItem> {
        self.range(column, prefix, start, direction).into_iter().map(Ok).into_boxed()
    }
    fn iter_store_keys(&self, column: Column, prefix: Option<&[u8]>, start: Option<&[u8]>, direction: IterDirection) -> BoxedIter<'_, KeyItem> {
        self.range(column, prefix, start, direction).into_iter().map(|(k, _)| Ok(k)).into_boxed()
    }
}

/// The chain database: the state after every height (index = height). The
/// last entry is the current state; earlier entries serve historical views.
/// Like the node's `Database`, clones share the same underlying state.
#[derive(Clone, Debug, Default)]
pub struct ChainDb {
    inner: Arc<std::sync::RwLock<ChainState>>,
}

#[derive(Clone, Debug, Default)]
pub struct ChainState {
    pub cur: MemDb,
    pub snaps: Vec<Arc<Dump>>,
}

impl ChainDb {
    /// A fresh, unshared database holding the given per-height states.
    pub fn from_snaps(snaps: &[Arc<Dump>]) -> ChainDb {
        ChainDb { inner: Arc::new(std::sync::RwLock::new(ChainState { cur: MemDb(snaps.last().cloned().unwrap_or_default()), snaps: snaps.to_vec() })) }
    }
    pub fn dump(&self) -> Arc<Dump> {
        self.inner.read().unwrap().cur.0.clone()
    }
    pub fn cur(&self) -> MemDb {
        self.inner.read().unwrap().cur.clone()
    }
    pub fn snaps(&self) -> Vec<Arc<Dump>> {
        self.inner.read().unwrap().snaps.clone()
    }
}

impl KeyValueInspect for ChainDb {
    type Column = Column;
    fn get(&self, key: &[u8], column: Column) -> StorageResult<Option<Value>> {
        self.cur().get(key, column)
    }
}

impl AtomicView for ChainDb {
    type LatestView = MemDb;
    fn latest_view(&self) -> StorageResult<MemDb> {
        Ok(self.cur())
    }
}

impl HistoricalView for ChainDb {
    type Height = BlockHeight;
    type ViewAtHeight = MemDb;
    fn latest_height(&self) -> Option<BlockHeight> {
        self.inner.read().unwrap().snaps.len().checked_sub(1).map(|h| BlockHeight::new(h as u32))
    }
    fn view_at(&self, height: &BlockHeight) -> StorageResult<MemDb> {
        match self.inner.read().unwrap().snaps.get(**height as usize) {
            Some(d) => Ok(MemDb(d.clone())),
            None => Err(anyhow::anyhow!("no state at height {height}").into()),
        }
    }
}

impl Modifiable for ChainDb {
    /// Like `Database<OnChain>`: a commit carries at most one new block height,
    /// which must be the successor of the current one. Unlike it, a commit
    /// without a new height is applied to the current state instead of being
    /// refused, so that stray writes (e.g. from a dry run) become visible.
    fn commit_changes(&mut self, changes: Changes) -> StorageResult<()> {
        let mut heights = vec![];
        if let Some(m) = changes.get(&Column::FuelBlocks.id()) {
            for (k, op) in m {
                if let WriteOperation::Insert(_) = op {
                    let kb: Vec<u8> = k.clone().into();
                    heights.push(u32::from_be_bytes(kb.as_slice().try_into().map_err(|_| anyhow::anyhow!("bad block key"))?));
                }
            }
        }
        if heights.len() > 1 {
            return Err(anyhow::anyhow!("multiple heights in one commit: {heights:?}").into());
        }
        let mut g = self.inner.write().unwrap();
        let latest = g.snaps.len().checked_sub(1).map(|h| h as u32);
        match (latest, heights.first()) {
            (Some(p), Some(n)) if *n != p + 1 => return Err(anyhow::anyhow!("heights are not linked: {p} -> {n}").into()),
            _ => {}
        }
        let mut d: Dump = (*g.cur.0).clone();
        for (col, m) in &changes {
            for (k, op) in m {
                let key: Vec<u8> = k.clone().into();
                match op {
                    WriteOperation::Insert(v) => {
                        d.insert((*col, key), v.clone());
                    }
                    WriteOperation::Remove => {
                        d.remove(&(*col, key));
                    }
                }
            }
        }
        g.cur = MemDb(Arc::new(d));
        let c = g.cur.0.clone();
        if heights.first().is_some() {
            g.snaps.push(c);
        } else if let Some(last) = g.snaps.last_mut() {
            *last = c;
        }
        Ok(())
    }
}

impl fuel_core_producer::ports::BlockProducerDatabase for MemDb {
    fn latest_height(&self) -> Option<BlockHeight> {
        use fuel_core_storage::iter::IteratorOverTable;
        self.iter_all_keys::<FuelBlocks>(Some(IterDirection::Reverse)).next().and_then(|r| r.ok())
    }
    fn get_block(&self, height: &BlockHeight) -> StorageResult<std::borrow::Cow<'_, fuel_core_types::blockchain::block::CompressedBlock>> {
        let s = StructuredStorage::new(self.clone());
        let b = s.storage::<FuelBlocks>().get(height)?.ok_or(fuel_core_storage::not_found!(FuelBlocks))?.into_owned();
        Ok(std::borrow::Cow::Owned(b))
    }
    fn get_full_block(&self, height: &BlockHeight) -> StorageResult<Block> {
        let block = self.get_block(height)?;
        let s = StructuredStorage::new(self.clone());
        let mut txs = vec![];
        for id in block.transactions() {
            txs.push(s.storage::<Transactions>().get(id)?.ok_or(fuel_core_storage::not_found!(Transactions))?.into_owned());
        }
        Ok(block.into_owned().uncompress(txs))
    }
    fn block_header_merkle_root(&self, height: &BlockHeight) -> StorageResult<Bytes32> {
        StructuredStorage::new(self.clone()).storage::<FuelBlocks>().root(height).map(Into::into)
    }
    fn latest_consensus_parameters_version(&self) -> StorageResult<u32> {
        use fuel_core_storage::iter::IteratorOverTable;
        let (v, _) = self
            .iter_all::<fuel_core_storage::tables::ConsensusParametersVersions>(Some(IterDirection::Reverse))
            .next()
            .ok_or(fuel_core_storage::not_found!("ConsensusParametersVersions"))??;
        Ok(v)
    }
    fn latest_state_transition_bytecode_version(&self) -> StorageResult<u32> {
        use fuel_core_storage::iter::IteratorOverTable;
        let (v, _) = self
            .iter_all::<fuel_core_storage::tables::StateTransitionBytecodeVersions>(Some(IterDirection::Reverse))
            .next()
            .ok_or(fuel_core_storage::not_found!("StateTransitionBytecodeVersions"))??;
        Ok(v)
    }
}

pub fn change_list(c: &Changes) -> ChangeList {
    let mut v: ChangeList = vec![];
    for (col, m) in c {
        for (k, op) in m {
            let key: Vec<u8> = k.clone().into();
            v.push((
                *col,
                key,
                match op {
                    WriteOperation::Insert(val) => Some(val.to_vec()),
                    WriteOperation::Remove => None,
                },
            ));
        }
    }
    v.sort();
    v
}

/// Apply a change list to a dump (reference semantics of a commit).
pub fn apply_changes(d: &mut Dump, cl: &ChangeList) {
    for (c, k, v) in cl {
        match v {
            Some(v) => {
                d.insert((*c, k.clone()), Arc::from(v.as_slice()));
            }
            None => {
                d.remove(&(*c, k.clone()));
            }
        }
    }
}

pub fn col_name(c: u32) -> String {
    Column::try_from(c).map(|c| format!("{c:?}")).unwrap_or_else(|_| format!("col{c}"))
}

pub fn diff_summary(a: &ChangeList, b: &ChangeList) -> String {
    let sa: std::collections::BTreeSet<_> = a.iter().collect();
    let sb: std::collections::BTreeSet<_> = b.iter().collect();
    let mut out = vec![];
    for x in sa.difference(&sb).take(3) {
        out.push(format!("only-first {}:{}={}", col_name(x.0), hex::encode(&x.1), x.2.as_ref().map(hex::encode).unwrap_or("DEL".into())));
    }
    for x in sb.difference(&sa).take(3) {
        out.push(format!("only-second {}:{}={}", col_name(x.0), hex::encode(&x.1), x.2.as_ref().map(hex::encode).unwrap_or("DEL".into())));
    }
    out.join("; ")
}

// ---------------------------------------------------------------------------
// relayer mock
// ---------------------------------------------------------------------------

#[derive(Clone)]
pub struct MockRelayer {
    pub events: Arc<BTreeMap<u64, Vec<Event>>>,
    pub enabled: bool,
    /// reading the events of this DA height fails (0 = never)
    pub fail_at: u64,
}

impl MockRelayer {
    pub fn new(u: &Universe) -> Self {
        MockRelayer { events: Arc::new(u.relayer.clone()), enabled: true, fail_at: 0 }
    }
}

impl RelayerPort for MockRelayer {
    fn enabled(&self) -> bool {
        self.enabled
    }
    fn get_events(&self, da_height: &DaBlockHeight) -> anyhow::Result<Vec<Event>> {
        if self.fail_at != 0 && da_height.0 == self.fail_at {
            anyhow::bail!("relayer database read failed at DA height {}", da_height.0);
        }
        Ok(self.events.get(&da_height.0).cloned().unwrap_or_default())
    }
}

impl AtomicView for MockRelayer {
    type LatestView = Self;
    fn latest_view(&self) -> StorageResult<Self::LatestView> {
        Ok(self.clone())
    }
}

pub type Exec = Executor<ChainDb, MockRelayer>;

pub fn exec_config() -> Config {
    exec_config_utxo(true)
}

pub fn exec_config_utxo(utxo_validation: bool) -> Config {
    Config { forbid_fake_coins_default: utxo_validation, allow_syscall: true, native_executor_version: None, allow_historical_execution: true }
}

pub fn executor(u: &Universe, db: ChainDb) -> Exec {
    Executor::native(db, MockRelayer::new(u), exec_config())
}

pub fn executor_with(u: &Universe, db: ChainDb, utxo_validation: bool) -> Exec {
    Executor::native(db, MockRelayer::new(u), exec_config_utxo(utxo_validation))
}

/// Executor whose relayer fails to read the events of DA height `fail_at` (0 = never fails).
pub fn executor_full(u: &Universe, db: ChainDb, utxo_validation: bool, fail_at: u64) -> Exec {
    let mut r = MockRelayer::new(u);
    r.fail_at = fail_at;
    Executor::native(db, r, exec_config_utxo(utxo_validation))
}

// ---------------------------------------------------------------------------
// header / production / validation / commit
// ---------------------------------------------------------------------------

pub struct Tip {
    pub height: u32,
    pub da: u64,
    pub root: Bytes32,
    /// latest consensus parameters version in the state (what the block producer puts into the next header)
    pub cp_version: u32,
}

pub fn tip(db: &ChainDb) -> Tip {
    let height = HistoricalView::latest_height(db).expect("chain has a genesis block");
    let view = StructuredStorage::new(db.cur());
    let block = view.storage::<FuelBlocks>().get(&height).expect("read block").expect("tip block exists").into_owned();
    let root: Bytes32 = view.storage::<FuelBlocks>().root(&height).expect("block merkle root").into();
    let cp_version = {
        use fuel_core_producer::ports::BlockProducerDatabase;
        db.cur().latest_consensus_parameters_version().expect("consensus parameters version")
    };
    Tip { height: *height, da: block.header().da_height().0, root, cp_version }
}

pub fn next_header(t: &Tip, da_advance: u64) -> PartialBlockHeader {
    PartialBlockHeader {
        application: ApplicationHeader {
            da_height: DaBlockHeight(t.da + da_advance),
            consensus_parameters_version: t.cp_version,
            state_transition_bytecode_version: STF_VERSION,
            generated: Default::default(),
        },
        consensus: ConsensusHeader {
            prev_root: t.root,
            height: BlockHeight::new(t.height + 1),
            time: Tai64(TIME0 + 10 * (t.height as u64 + 1)),
            generated: Default::default(),
        },
    }
}

/// Kind of transaction source handed to the executor.
/// 0 = the repository's `OnceTransactionsSource` (honours only the count limit),
/// 1 = greedy: hands out everything at once and ignores every limit,
/// 2 = honest: honours the gas, count and size limits it is given (like the pool).
pub const SRC_ONCE: u8 = 0;
pub const SRC_GREEDY: u8 = 1;
pub const SRC_HONEST: u8 = 2;
/// 3 = like the pool: transactions arrive fully checked (`CheckedTransaction`) where the checks pass.
pub const SRC_CHECKED: u8 = 3;

pub struct GreedySource(pub std::sync::Mutex<Vec<MaybeCheckedTransaction>>);

impl TransactionsSource for GreedySource {
    fn next(&self, _: u64, _: u16, _: u32) -> Vec<MaybeCheckedTransaction> {
        std::mem::take(&mut *self.0.lock().unwrap())
    }
}

pub struct HonestSource {
    pub pool: std::sync::Mutex<Vec<Transaction>>,
    pub cp: fuel_core_types::fuel_tx::ConsensusParameters,
}

pub fn metered_size(tx: &Transaction) -> u64 {
    use fuel_core_types::fuel_tx::Chargeable;
    match tx {
        Transaction::Script(t) => t.metered_bytes_size() as u64,
        Transaction::Create(t) => t.metered_bytes_size() as u64,
        Transaction::Upgrade(t) => t.metered_bytes_size() as u64,
        Transaction::Upload(t) => t.metered_bytes_size() as u64,
        Transaction::Blob(t) => t.metered_bytes_size() as u64,
        Transaction::Mint(_) => 0,
    }
}

impl TransactionsSource for HonestSource {
    fn next(&self, gas_limit: u64, tx_limit: u16, size_limit: u32) -> Vec<MaybeCheckedTransaction> {
        use fuel_core_types::blockchain::transaction::TransactionExt;
        let mut pool = self.pool.lock().unwrap();
        let (mut gas, mut size, mut count) = (gas_limit, size_limit as u64, tx_limit as usize);
        let mut picked = vec![];
        let mut rest = vec![];
        for tx in pool.drain(..) {
            let g = tx.max_gas(&self.cp).unwrap_or(u64::MAX);
            let sz = metered_size(&tx);
            if count > 0 && g <= gas && sz <= size {
                gas -= g;
                size -= sz;
                count -= 1;
                picked.push(MaybeCheckedTransaction::Transaction(tx));
            } else {
                rest.push(tx);
            }
        }
        *pool = rest;
        picked
    }
}

pub fn produce(
    u: &Universe,
    ex: &Exec,
    header: PartialBlockHeader,
    txs: Vec<Transaction>,
    gas_price: u64,
    coinbase: ContractId,
    src: u8,
) -> Result<(ExecutionResult, Changes), ExecutorError> {
    match src {
        SRC_GREEDY => {
            let c = Components {
                header_to_produce: header,
                transactions_source: GreedySource(std::sync::Mutex::new(txs.into_iter().map(MaybeCheckedTransaction::Transaction).collect())),
                coinbase_recipient: coinbase,
                gas_price,
            };
            ex.produce_without_commit_with_source_direct_resolve(c).map(|u| u.into())
        }
        SRC_HONEST => {
            let c = Components {
                header_to_produce: header,
                transactions_source: HonestSource { pool: std::sync::Mutex::new(txs), cp: u.cp.clone() },
                coinbase_recipient: coinbase,
                gas_price,
            };
            ex.produce_without_commit_with_source_direct_resolve(c).map(|u| u.into())
        }
        SRC_CHECKED => {
            use fuel_core_types::fuel_vm::checked_transaction::{CheckedTransaction, IntoChecked};
            let h = *header.height();
            let v: Vec<MaybeCheckedTransaction> = txs
                .into_iter()
                .map(|tx| {
                    // the pool checked the transaction when it arrived: at this height, or at an earlier one,
                    // under the consensus parameters it knew then (version 0, the genesis parameters). After a
                    // parameters upgrade the executor must re-check such a transaction itself.
                    match tx.clone().into_checked(h, &u.cp).or_else(|_| tx.clone().into_checked(BlockHeight::new(1), &u.cp)) {
                        Ok(c) => MaybeCheckedTransaction::CheckedTransaction(CheckedTransaction::from(c), 0),
                        Err(_) => MaybeCheckedTransaction::Transaction(tx),
                    }
                })
                .collect();
            let c = Components {
                header_to_produce: header,
                transactions_source: OnceTransactionsSource::new_maybe_checked(v),
                coinbase_recipient: coinbase,
                gas_price,
            };
            ex.produce_without_commit_with_source_direct_resolve(c).map(|u| u.into())
        }
        _ => {
            let c = Components {
                header_to_produce: header,
                transactions_source: OnceTransactionsSource::new(txs),
                coinbase_recipient: coinbase,
                gas_price,
            };
            ex.produce_without_commit_with_source_direct_resolve(c).map(|u| u.into())
        }
    }
}

pub fn validate(ex: &Exec, block: &Block) -> Result<(ValidationResult, Changes), ExecutorError> {
    ex.validate(block).map(|u| u.into())
}

/// Commit an executed block the way the importer does: the executor's changes
/// plus the block, its consensus seal and its transactions.
pub fn commit_block(u: &Universe, db: &mut ChainDb, changes: Changes, block: &Block) -> Result<(), String> {
    let all = {
        let mut tx = StorageTransaction::transaction(db.cur(), ConflictPolicy::Overwrite, changes);
        let h = *block.header().height();
        tx.storage_as_mut::<FuelBlocks>().insert(&h, &block.compress(&u.chain_id)).map_err(|e| e.to_string())?;
        tx.storage_as_mut::<SealedBlockConsensus>()
            .insert(&h, &Consensus::PoA(PoAConsensus::new(Default::default())))
            .map_err(|e| e.to_string())?;
        for t in block.transactions() {
            tx.storage_as_mut::<Transactions>().insert(&t.id(&u.chain_id), t).map_err(|e| e.to_string())?;
        }
        tx.into_changes()
    };
    db.commit_changes(all).map_err(|e| e.to_string())
}

pub fn err_class(e: &ExecutorError) -> String {
    let s = format!("{e:?}");
    let head: String = s.chars().take_while(|c| c.is_alphanumeric() || *c == '_').collect();
    match e {
        ExecutorError::TransactionValidity(v) => {
            let s2 = format!("{v:?}");
            let h2: String = s2.chars().take_while(|c| c.is_alphanumeric() || *c == '_').collect();
            format!("{head}.{h2}")
        }
        ExecutorError::InvalidTransaction(c) => {
            let s2 = format!("{c:?}");
            let parts: Vec<String> = s2
                .split(|ch: char| !(ch.is_alphanumeric() || ch == '_'))
                .filter(|p| !p.is_empty() && p.chars().next().map(|c| c.is_uppercase()).unwrap_or(false))
                .take(2)
                .map(|p| p.to_string())
                .collect();
            format!("{head}.{}", parts.join("."))
        }
        _ => head,
    }
}
