//! C45: dry runs leave the chain state unchanged and are repeatable.
//! Seams: the real `Producer::dry_run` (with the real upgradable executor
//! behind the `DryRunner` port) and `Executor::dry_run` directly.
use crate::{
    chain::*,
    subject::{ExecSubject, World},
    universe::Universe,
};
use fuel_core_producer::{
    block_producer::gas_price::{ChainStateInfoProvider, GasPriceProvider},
    ports::{DryRunner, Relayer, RelayerBlockInfo, TxPool},
    Config as ProducerConfig, Producer,
};
use fuel_core_types::{
    blockchain::{header::ConsensusParametersVersion, primitives::DaBlockHeight},
    fuel_tx::{ConsensusParameters, Transaction},
    fuel_types::BlockHeight,
    services::{
        block_producer::Components,
        executor::{DryRunResult, Result as ExecutorResult},
    },
};
use fuel_core_upgradable_executor::executor::Executor;
use mcx::{viol, Violation};
use std::sync::{
    atomic::{AtomicUsize, Ordering},
    Arc,
};

pub struct Runner(pub Executor<ChainDb, MockRelayer>);

impl DryRunner for Runner {
    fn dry_run(
        &self,
        block: Components<Vec<Transaction>>,
        forbid_fake_coins: Option<bool>,
        at_height: Option<BlockHeight>,
        record_storage_read_replay: bool,
    ) -> ExecutorResult<DryRunResult> {
        self.0.dry_run(block, forbid_fake_coins, at_height, record_storage_read_replay)
    }
}

#[derive(Clone, Default)]
pub struct Calls(pub Arc<AtomicUsize>);

pub struct PoolMock(pub Calls);
impl TxPool for PoolMock {
    type TxSource = Vec<Transaction>;
    async fn get_source(&self, _: u64, _: BlockHeight) -> anyhow::Result<Self::TxSource> {
        self.0 .0.fetch_add(1, Ordering::SeqCst);
        Ok(vec![])
    }
}

pub struct RelayerMock(pub Calls);
#[async_trait::async_trait]
impl Relayer for RelayerMock {
    async fn wait_for_at_least_height(&self, h: &DaBlockHeight) -> anyhow::Result<DaBlockHeight> {
        self.0 .0.fetch_add(1, Ordering::SeqCst);
        Ok(*h)
    }
    async fn get_cost_and_transactions_number_for_block(&self, _: &DaBlockHeight) -> anyhow::Result<RelayerBlockInfo> {
        self.0 .0.fetch_add(1, Ordering::SeqCst);
        Ok(RelayerBlockInfo { gas_cost: 0, tx_count: 0 })
    }
}

pub struct Gas;
impl GasPriceProvider for Gas {
    fn production_gas_price(&self) -> anyhow::Result<u64> {
        Ok(1)
    }
    fn dry_run_gas_price(&self) -> anyhow::Result<u64> {
        Ok(1)
    }
}

pub struct Params(pub Arc<ConsensusParameters>);
impl ChainStateInfoProvider for Params {
    fn consensus_params_at_version(&self, _: &ConsensusParametersVersion) -> anyhow::Result<Arc<ConsensusParameters>> {
        Ok(self.0.clone())
    }
}

#[derive(Clone, Debug)]
pub struct Request {
    pub txs: Vec<u8>,
    /// 0 = None, 1 = Some(next), 2 = Some(latest) (re-run the tip block's height), 3 = Some(1)
    pub height: u8,
    pub utxo: Option<bool>,
    pub record: bool,
    pub gas_price: Option<u64>,
}

pub fn requests(u: &Universe, thorough: bool) -> Vec<Request> {
    let names: Vec<&str> = if thorough {
        vec!["xfer", "call_ok", "call_rvrt", "call_tro", "missing", "call_c3", "msgdata_rvrt", "create", "badsig"]
    } else {
        vec!["xfer", "call_ok", "call_rvrt", "missing", "call_c3", "msgdata_rvrt"]
    };
    let ids: Vec<u8> = names.iter().map(|n| u.tid(n)).collect();
    let mut lists: Vec<Vec<u8>> = ids.iter().map(|i| vec![*i]).collect();
    lists.push(vec![u.tid("xfer"), u.tid("dep")]);
    lists.push(vec![u.tid("call_ok"), u.tid("call_rvrt")]);
    lists.push(vec![]);
    let mut v = vec![];
    for l in &lists {
        for height in 0..4u8 {
            for utxo in [None, Some(true), Some(false)] {
                for record in [false, true] {
                    // thin the grid a little in the quick tier: all values of every dimension stay covered
                    if !thorough && record && utxo == Some(true) && height == 1 {
                        continue;
                    }
                    v.push(Request { txs: l.clone(), height, utxo, record, gas_price: if record { None } else { Some(0) } });
                }
            }
        }
    }
    v
}

fn result_str(r: &anyhow::Result<DryRunResult>) -> String {
    match r {
        Ok(d) => format!("Ok {:?} reads {:?}", d.transactions, d.storage_reads),
        Err(e) => format!("Err {e:#}"),
    }
}
fn result_str2(r: &ExecutorResult<DryRunResult>) -> String {
    match r {
        Ok(d) => format!("Ok {:?} reads {:?}", d.transactions, d.storage_reads),
        Err(e) => format!("Err {e:?}"),
    }
}

impl ExecSubject {
    /// Run the whole request grid against the state reached by `w`.
    pub fn c45(&self, w: &World, thorough: bool) -> Result<usize, Violation> {
        let u = &self.u;
        let rt = tokio::runtime::Builder::new_current_thread().build().map_err(|e| viol("runtime", e.to_string()))?;
        let db = w.db();
        let before: Dump = (*db.dump()).clone();
        let latest = tip(&db).height;
        let exec = Arc::new(Runner(Executor::native(db.clone(), MockRelayer::new(u), exec_config())));
        let pool_calls = Calls::default();
        let rel_calls = Calls::default();
        let producer = Producer {
            config: ProducerConfig { coinbase_recipient: Some(u.c2), metrics: false },
            view_provider: db.clone(),
            txpool: PoolMock(pool_calls.clone()),
            executor: exec.clone(),
            relayer: Box::new(RelayerMock(rel_calls.clone())),
            lock: Default::default(),
            gas_price_provider: Gas,
            chain_state_info_provider: Params(Arc::new(u.cp.clone())),
        };
        let reqs = requests(u, thorough);
        let mut n = 0;
        for rq in &reqs {
            let txs: Vec<Transaction> = rq.txs.iter().map(|i| u.templates[*i as usize].tx.clone()).collect();
            let height = match rq.height {
                0 => None,
                1 => Some(BlockHeight::new(latest + 1)),
                2 => Some(BlockHeight::new(latest)),
                _ => Some(BlockHeight::new(1)),
            };
            if height == Some(BlockHeight::new(0)) {
                continue;
            }
            // through the producer
            let r1 = rt.block_on(producer.dry_run(txs.clone(), height, None, rq.utxo, rq.gas_price, rq.record));
            if *db.dump() != before || db.snaps().len() != w.snaps.len() {
                return Err(viol("producer-dry-run-changed-on-chain-db", format!("Producer::dry_run({rq:?}) changed the on-chain database at height {latest}")));
            }
            let r2 = rt.block_on(producer.dry_run(txs.clone(), height, None, rq.utxo, rq.gas_price, rq.record));
            if result_str(&r1) != result_str(&r2) {
                return Err(viol("producer-dry-run-not-repeatable", format!("Producer::dry_run({rq:?}) at height {latest}: first {} second {}", result_str(&r1), result_str(&r2))));
            }
            // same request while a block production holds the production mutex (the chain is
            // still unchanged): the answer must be the same as before and after
            let r3 = {
                let _production_in_progress = producer.lock.try_lock().expect("the production lock is free between requests");
                rt.block_on(producer.dry_run(txs.clone(), height, None, rq.utxo, rq.gas_price, rq.record))
            };
            if result_str(&r1) != result_str(&r3) {
                return Err(viol(
                    "producer-dry-run-differs-while-production-in-progress",
                    format!("Producer::dry_run({rq:?}) at height {latest}: alone {} but {} while the production lock is held", result_str(&r1), result_str(&r3)),
                ));
            }
            if pool_calls.0.load(Ordering::SeqCst) != 0 || rel_calls.0.load(Ordering::SeqCst) != 0 {
                return Err(viol("dry-run-touched-pool-or-relayer", format!("Producer::dry_run({rq:?}) called the txpool or the relayer port")));
            }
            // directly on the executor
            let comp = |txs: Vec<Transaction>| Components {
                header_to_produce: next_header(&tip(&db), 0),
                transactions_source: txs,
                coinbase_recipient: Default::default(),
                gas_price: rq.gas_price.unwrap_or(1),
            };
            if rq.height <= 1 {
                let at = if rq.height == 0 { None } else { height };
                let e1 = exec.0.dry_run(comp(txs.clone()), rq.utxo, at, rq.record);
                if *db.dump() != before {
                    return Err(viol("executor-dry-run-changed-on-chain-db", format!("Executor::dry_run({rq:?}) changed the on-chain database at height {latest}")));
                }
                let e2 = exec.0.dry_run(comp(txs.clone()), rq.utxo, at, rq.record);
                if result_str2(&e1) != result_str2(&e2) {
                    return Err(viol("executor-dry-run-not-repeatable", format!("Executor::dry_run({rq:?}) at height {latest}: first {} second {}", result_str2(&e1), result_str2(&e2))));
                }
                self.fact_pub(if e1.is_ok() { "c45:executor-ok" } else { "c45:executor-err" });
            }
            match &r1 {
                Ok(d) => {
                    self.fact_pub("c45:producer-ok");
                    if d.transactions.iter().any(|(_, s)| crate::subject::failed(s)) {
                        self.fact_pub("c45:reverting-dry-run");
                    }
                    if !d.storage_reads.is_empty() {
                        self.fact_pub("c45:storage-reads-recorded");
                    }
                    if rq.height >= 2 {
                        self.fact_pub("c45:past-height-ok");
                    }
                }
                Err(_) => self.fact_pub("c45:producer-err"),
            }
            n += 1;
        }
        Ok(n)
    }
}
