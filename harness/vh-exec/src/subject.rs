//! The shared `mcx::Subject`: a state is a parent chain state (full dump of
//! the on-chain database), a letter is one block. Each property plugs its own
//! oracle into the same step function.
use crate::{
    chain::*,
    universe::{Universe, STF_VERSION},
};
use fuel_core_storage::{
    column::Column,
    iter::IteratorOverTable,
    tables::{Coins, Messages},
    transactional::Changes,
};
use fuel_core_types::{
    blockchain::{
        block::{Block, PartialFuelBlock},
        header::PartialBlockHeader,
        transaction::TransactionExt,
    },
    entities::{coins::coin::CompressedCoin, relayer::message::Message},
    fuel_merkle::binary::in_memory::MerkleTree,
    fuel_tx::{
        field::{InputContract, MintAmount, MintAssetId, MintGasPrice, OutputContract, TxPointer as TxPointerField},
        AssetId, Bytes32, ContractId, Input, MessageId, Mint, Output, Transaction, TxId, TxPointer, UniqueIdentifier,
        UtxoId,
    },
    fuel_types::{canonical::Deserialize as _, BlockHeight, Nonce},
    services::{
        executor::{Error as ExecutorError, Event as ExecEvent, ExecutionResult, TransactionExecutionResult, TransactionExecutionStatus},
        relayer::Event as RelayerEvent,
    },
};
use mcx::{viol, Subject, Violation};
use serde::{Deserialize, Serialize};
use std::{
    collections::{BTreeMap, BTreeSet},
    sync::{Arc, Mutex},
};

#[derive(Clone, Copy, Debug, PartialEq, Eq)]
pub enum Prop {
    C01,
    C02,
    C03,
    C04,
    C05,
    C06,
    C45,
}

/// One block letter.
#[derive(Clone, Debug, Serialize, Deserialize, PartialEq, Eq, PartialOrd, Ord)]
pub struct Blk {
    /// template indices, in order
    pub txs: Vec<u8>,
    /// block gas price
    pub gp: u64,
    /// coinbase recipient: 0 = none (zero contract id), 1 = contract C2, 2 = contract C1
    pub cb: u8,
    /// DA height advance
    pub da: u8,
    /// transaction source: 0 = OnceTransactionsSource, 1 = greedy (ignores all limits), 2 = honest
    #[serde(default)]
    pub src: u8,
    /// additionally hand in the first `bulk` bulk transfers of the universe
    #[serde(default)]
    pub bulk: u32,
    /// deviation: the relayer fails to read the events of this DA height (0 = no failure)
    #[serde(default)]
    pub rfail: u8,
}

#[derive(Clone, Default)]
pub struct Model {
    pub coins: BTreeMap<UtxoId, CompressedCoin>,
    pub msgs: BTreeMap<Nonce, Message>,
    pub spent_coins: BTreeSet<UtxoId>,
    pub ever_created: BTreeSet<UtxoId>,
    pub imported: BTreeSet<Nonce>,
    pub executed: BTreeSet<TxId>,
    /// executed non-mint transactions (as they appear in their blocks) and mints, for crafted blocks
    pub history_txs: Vec<Transaction>,
    pub history_mints: Vec<Transaction>,
}

#[derive(Clone)]
pub struct World {
    /// state after every height (index = height); the last one is the current state
    pub snaps: Vec<Arc<Dump>>,
    pub model: Model,
}

pub struct ExecSubject {
    pub name: String,
    pub u: Universe,
    pub prop: Prop,
    pub alphabet: Vec<Blk>,
    pub thorough: bool,
    /// run the executor with UTXO validation (forbid_fake_coins) on
    pub utxo_validation: bool,
    pub facts: Mutex<BTreeMap<String, u64>>,
}

impl World {
    pub fn dump(&self) -> &Arc<Dump> {
        self.snaps.last().expect("genesis state")
    }
    pub fn db(&self) -> ChainDb {
        ChainDb::from_snaps(&self.snaps)
    }
}

impl ExecSubject {
    pub fn new(name: &str, u: Universe, prop: Prop, alphabet: Vec<Blk>) -> Self {
        ExecSubject { name: name.to_string(), u, prop, alphabet, thorough: false, utxo_validation: true, facts: Mutex::new(BTreeMap::new()) }
    }
    fn fact(&self, f: impl Into<String>) {
        *self.facts.lock().unwrap().entry(f.into()).or_default() += 1;
    }
    pub fn fact_pub(&self, f: &str) {
        self.fact(f)
    }
    pub fn facts(&self) -> BTreeMap<String, u64> {
        self.facts.lock().unwrap().clone()
    }
    fn coinbase(&self, cb: u8) -> ContractId {
        match cb {
            0 => ContractId::zeroed(),
            1 => self.u.c2,
            _ => self.u.c1,
        }
    }
    fn txs_of(&self, op: &Blk) -> Vec<Transaction> {
        let mut v: Vec<Transaction> = op.txs.iter().map(|i| self.u.templates[*i as usize].tx.clone()).collect();
        v.extend(self.u.bulk.iter().take(op.bulk as usize).cloned());
        v
    }
}

pub fn failed(s: &TransactionExecutionStatus) -> bool {
    matches!(s.result, TransactionExecutionResult::Failed { .. })
}

fn mint_of(block: &Block) -> Option<&Mint> {
    block.transactions().last().and_then(|t| t.as_mint())
}

fn short(b: &[u8]) -> String {
    hex::encode(&b[..4.min(b.len())])
}

/// Outbox message ids of a block, recomputed from the receipts of its successful transactions.
fn outbox_ids(statuses: &[TransactionExecutionStatus]) -> Vec<MessageId> {
    let mut v = vec![];
    for s in statuses {
        if let TransactionExecutionResult::Success { receipts, .. } = &s.result {
            v.extend(receipts.iter().filter_map(|r| r.message_id()));
        }
    }
    v
}

fn rebuild_block(orig: &Block, txs: Vec<Transaction>, statuses: &[TransactionExecutionStatus]) -> Result<Block, String> {
    let ph = PartialBlockHeader::from(orig.header());
    PartialFuelBlock::new(ph, txs)
        .generate(&outbox_ids(statuses), orig.header().event_inbox_root())
        .map_err(|e| format!("{e:?}"))
}

fn status_str(s: &[TransactionExecutionStatus]) -> String {
    format!("{s:?}")
}
fn events_str(e: &[ExecEvent]) -> String {
    format!("{e:?}")
}

impl Subject for ExecSubject {
    type World = World;
    type Op = Blk;

    fn name(&self) -> String {
        self.name.clone()
    }

    fn fresh(&self) -> World {
        let mut m = Model::default();
        for (id, c) in &self.u.genesis_coins {
            m.coins.insert(*id, c.clone());
            m.ever_created.insert(*id);
        }
        for msg in &self.u.genesis_msgs {
            m.msgs.insert(*msg.nonce(), msg.clone());
            m.imported.insert(*msg.nonce());
        }
        for id in &self.u.genesis_processed {
            m.executed.insert(*id);
        }
        World { snaps: vec![self.u.genesis.clone()], model: m }
    }

    fn clone_world(&self, w: &World) -> Option<World> {
        Some(w.clone())
    }

    fn enabled(&self, _w: &World) -> Vec<Blk> {
        self.alphabet.clone()
    }

    fn label(&self, op: &Blk) -> String {
        if op.rfail > 0 {
            format!("relayer-read-fails-at-{}", op.rfail)
        } else if op.bulk > 0 {
            format!("bulk{}", op.bulk)
        } else if op.txs.is_empty() {
            "empty".to_string()
        } else {
            op.txs.iter().map(|i| self.u.templates[*i as usize].name).collect::<Vec<_>>().join("+")
        }
    }

    fn canon(&self, w: &World) -> Vec<u8> {
        let mut out = Vec::with_capacity(64 * w.dump().len());
        for ((c, k), v) in w.dump().iter() {
            out.extend_from_slice(&c.to_le_bytes());
            out.extend_from_slice(&(k.len() as u32).to_le_bytes());
            out.extend_from_slice(k);
            out.extend_from_slice(&(v.len() as u32).to_le_bytes());
            if v.len() > 65_536 {
                // a constant multi-megabyte value (an uploaded WASM module): its length and head identify it
                out.extend_from_slice(&v[..64]);
            } else {
                out.extend_from_slice(v);
            }
        }
        // model parts that are not a function of the dump
        for id in &w.model.ever_created {
            out.extend_from_slice(id.tx_id().as_ref());
            out.extend_from_slice(&id.output_index().to_le_bytes());
        }
        for n in &w.model.imported {
            out.extend_from_slice(n.as_ref());
        }
        out
    }

    fn deviation(&self, op: &Blk) -> u32 {
        (op.rfail != 0) as u32
    }

    fn interesting(&self, _op: &Blk, obs: &str) -> bool {
        !obs.starts_with("produce-err") && !obs.contains("txs=[]")
    }

    fn step(&self, w: &mut World, op: &Blk) -> Result<String, Violation> {
        let u = &self.u;
        let mut db = w.db();
        let t = tip(&db);
        let header = next_header(&t, op.da as u64);
        let txs = self.txs_of(op);
        let cb = self.coinbase(op.cb);
        let producer = executor_full(u, db.clone(), self.utxo_validation, op.rfail as u64);
        let (res, changes) = match produce(u, &producer, header, txs.clone(), op.gp, cb, op.src) {
            Ok(x) => x,
            Err(e) => {
                let c = err_class(&e);
                self.fact(format!("produce-err:{c}"));
                return Ok(format!("produce-err {c}"));
            }
        };
        for (_, e) in &res.skipped_transactions {
            self.fact(format!("skip:{}", err_class(e)));
        }
        for s in &res.tx_status {
            if failed(s) {
                self.fact("status:failed");
            }
        }
        if op.src == SRC_CHECKED && t.cp_version > 0 && res.skipped_transactions.iter().any(|(_, e)| matches!(e, ExecutorError::InvalidTransaction(_))) {
            // a transaction pre-checked under the old parameters was re-checked under the upgraded ones and refused
            self.fact("c01:rechecked-after-upgrade");
        }
        let cl = change_list(&changes);

        match self.prop {
            Prop::C01 => self.c01(w, &res, &cl)?,
            Prop::C03 => self.c03(w, op, &res, &cl)?,
            Prop::C04 => self.c04(w, op, &t, &res, &cl)?,
            _ => {}
        }

        // commit and continue
        commit_block(u, &mut db, changes, &res.block).map_err(|e| viol("commit-failed", format!("committing the produced block failed: {e}")))?;
        let new_dump = db.dump();

        match self.prop {
            Prop::C02 => self.c02(w, op, &t, &res, &db)?,
            Prop::C05 => self.c05(w, op, &t, &res, &new_dump)?,
            Prop::C06 => self.c06(w, op, &res)?,
            _ => {}
        }
        w.snaps.push(new_dump);
        let mut extra = String::new();
        if self.prop == Prop::C45 {
            let n = self.c45(w, self.thorough)?;
            extra = format!(" dry-runs={n}");
        }

        let st: Vec<&str> = res.tx_status.iter().map(|s| if failed(s) { "F" } else { "S" }).collect();
        let sk: Vec<String> = res.skipped_transactions.iter().map(|(_, e)| err_class(e)).collect();
        Ok(format!(
            "h={} da={} txs=[{}] skipped=[{}] events={} block={}{extra}",
            t.height + 1,
            t.da + op.da as u64,
            st[..st.len().saturating_sub(1)].join(","),
            sk.join(","),
            res.events.len(),
            short(res.block.id().as_slice())
        ))
    }
}

// ---------------------------------------------------------------------------
// C01: produce => validate with identical effects; validate twice identical
// ---------------------------------------------------------------------------
impl ExecSubject {
    fn c01(&self, w: &World, res: &ExecutionResult, cl: &ChangeList) -> Result<(), Violation> {
        let u = &self.u;
        let v1 = executor_with(u, w.db(), self.utxo_validation);
        let r1 = validate(&v1, &res.block);
        let v2 = executor_with(u, w.db(), self.utxo_validation);
        let r2 = validate(&v2, &res.block);
        let (val, vch) = match &r1 {
            Ok(x) => x,
            Err(e) => {
                return Err(viol(
                    format!("validate-rejects-produced-block:{}", err_class(e)),
                    format!("the block produced at height {} is rejected by validation on the same parent: {e:?}", res.block.header().height()),
                ))
            }
        };
        let vcl = change_list(vch);
        if &vcl != cl {
            return Err(viol("changes-differ", format!("storage changes of production and validation differ: {}", diff_summary(cl, &vcl))));
        }
        if status_str(&val.tx_status) != status_str(&res.tx_status) {
            return Err(viol(
                "statuses-differ",
                format!("transaction statuses differ: produced {} validated {}", status_str(&res.tx_status), status_str(&val.tx_status)),
            ));
        }
        if events_str(&val.events) != events_str(&res.events) {
            // a transaction skipped with FeeOverflow after its VM run leaves its input/output events behind: own witness class
            let late = res.skipped_transactions.iter().any(|(_, e)| matches!(e, ExecutorError::FeeOverflow));
            return Err(viol(
                if late { "events-differ:skipped-FeeOverflow" } else { "events-differ" },
                format!("events differ: produced {} validated {}", events_str(&res.events), events_str(&val.events)),
            ));
        }
        match &r2 {
            Ok((val2, vch2)) => {
                if change_list(vch2) != vcl || status_str(&val2.tx_status) != status_str(&val.tx_status) || events_str(&val2.events) != events_str(&val.events) {
                    return Err(viol("second-validation-differs", "validating the same block twice gave different results".to_string()));
                }
            }
            Err(e) => return Err(viol("second-validation-differs", format!("second validation of the same block failed: {e:?}"))),
        }
        self.fact("c01:validated");
        Ok(())
    }
}

// ---------------------------------------------------------------------------
// C02: UTXO conservation, exact events
// ---------------------------------------------------------------------------
impl ExecSubject {
    fn c02(&self, w: &mut World, op: &Blk, t: &Tip, res: &ExecutionResult, db: &ChainDb) -> Result<(), Violation> {
        let u = &self.u;
        let m = &mut w.model;
        let height = t.height + 1;
        let block_da = t.da + op.da as u64;
        let mut expected: Vec<String> = vec![];
        // relayed messages of DA heights p+1..=d
        for da in t.da + 1..=block_da {
            for e in u.relayer.get(&da).cloned().unwrap_or_default() {
                if let RelayerEvent::Message(msg) = e {
                    m.msgs.insert(*msg.nonce(), msg.clone());
                    m.imported.insert(*msg.nonce());
                    expected.push(format!("{:?}", ExecEvent::MessageImported(msg)));
                }
            }
        }
        for (idx, tx) in res.block.transactions().iter().enumerate() {
            if tx.is_mint() {
                continue;
            }
            let tx_id = tx.id(&u.chain_id);
            let st = res.tx_status.get(idx).ok_or_else(|| viol("status-missing", format!("no status for transaction {idx}")))?;
            let reverted = failed(st);
            for input in tx.inputs().iter() {
                match input {
                    Input::CoinSigned(_) | Input::CoinPredicate(_) => {
                        let id = *input.utxo_id().unwrap();
                        if m.spent_coins.contains(&id) {
                            return Err(viol("coin-spent-twice", format!("coin {id:?} is spent again by tx {idx} of block {height}")));
                        }
                        let Some(c) = m.coins.remove(&id) else {
                            return Err(viol("spent-coin-did-not-exist", format!("tx {idx} of block {height} spends coin {id:?} which is not in the unspent set")));
                        };
                        if Some(*c.amount()) != input.amount() || Some(c.owner()) != input.input_owner() || Some(c.asset_id()) != input.asset_id(&AssetId::BASE) {
                            return Err(viol("spent-coin-mismatch", format!("tx {idx} of block {height} spends coin {id:?} with fields different from the unspent coin {c:?}")));
                        }
                        m.spent_coins.insert(id);
                        expected.push(format!("{:?}", ExecEvent::CoinConsumed(c.uncompress(id))));
                    }
                    Input::MessageDataSigned(_) | Input::MessageDataPredicate(_) if reverted => {
                        self.fact("c02:retryable-kept");
                    }
                    Input::MessageCoinSigned(_) | Input::MessageCoinPredicate(_) | Input::MessageDataSigned(_) | Input::MessageDataPredicate(_) => {
                        let n = *input.nonce().unwrap();
                        let Some(msg) = m.msgs.remove(&n) else {
                            return Err(viol("spent-message-did-not-exist", format!("tx {idx} of block {height} spends message {n:?} which is not in the unspent set")));
                        };
                        if msg.da_height().0 > block_da {
                            return Err(viol("message-spent-before-da-height", format!("message {n:?} of DA height {} spent in a block of DA height {block_da}", msg.da_height().0)));
                        }
                        expected.push(format!("{:?}", ExecEvent::MessageConsumed(msg)));
                    }
                    Input::Contract(_) => {}
                }
            }
            for (oi, out) in tx.outputs().iter().enumerate() {
                let (to, amount, asset) = match out {
                    Output::Coin { to, amount, asset_id } | Output::Change { to, amount, asset_id } | Output::Variable { to, amount, asset_id } => (*to, *amount, *asset_id),
                    _ => continue,
                };
                if amount == 0 {
                    self.fact("c02:zero-output-not-created");
                    continue;
                }
                let id = UtxoId::new(tx_id, oi as u16);
                if m.coins.contains_key(&id) || m.ever_created.contains(&id) {
                    return Err(viol("created-coin-id-not-fresh", format!("tx {idx} of block {height} creates coin {id:?} whose id was used before")));
                }
                let c: CompressedCoin = fuel_core_types::entities::coins::coin::CompressedCoinV1 {
                    owner: to,
                    amount,
                    asset_id: asset,
                    tx_pointer: TxPointer::new(BlockHeight::new(height), idx as u16),
                }
                .into();
                expected.push(format!("{:?}", ExecEvent::CoinCreated(c.clone().uncompress(id))));
                m.coins.insert(id, c);
                m.ever_created.insert(id);
            }
        }
        // tables == model
        let mut table_coins: BTreeMap<UtxoId, CompressedCoin> = BTreeMap::new();
        for kv in db.cur().iter_all::<Coins>(None) {
            let (k, v) = kv.map_err(|e| viol("table-read", e.to_string()))?;
            if *v.amount() == 0 {
                return Err(viol("zero-amount-coin-in-utxo-set", format!("coin {k:?} with amount 0 is in the Coins table")));
            }
            table_coins.insert(k, v);
        }
        if table_coins != m.coins {
            let only_t: Vec<_> = table_coins.iter().filter(|(k, v)| m.coins.get(*k) != Some(*v)).take(3).collect();
            let only_m: Vec<_> = m.coins.iter().filter(|(k, v)| table_coins.get(*k) != Some(*v)).take(3).collect();
            return Err(viol(
                "coins-table-differs-from-model",
                format!("after block {height}: only/different in Coins table {only_t:?}; only/different in reference unspent set {only_m:?}"),
            ));
        }
        let mut table_msgs: BTreeMap<Nonce, Message> = BTreeMap::new();
        for kv in db.cur().iter_all::<Messages>(None) {
            let (k, v) = kv.map_err(|e| viol("table-read", e.to_string()))?;
            table_msgs.insert(k, v);
        }
        if table_msgs != m.msgs {
            let tk: Vec<_> = table_msgs.keys().filter(|k| !m.msgs.contains_key(*k)).collect();
            let mk: Vec<_> = m.msgs.keys().filter(|k| !table_msgs.contains_key(*k)).collect();
            return Err(viol("messages-table-differs-from-model", format!("after block {height}: only in Messages table {tk:?}; only in reference unspent set {mk:?}")));
        }
        // events == difference (as a multiset; create-then-spend inside the block shows as two events)
        let mut actual: Vec<String> = res
            .events
            .iter()
            .filter(|e| !matches!(e, ExecEvent::ForcedTransactionFailed { .. }))
            .map(|e| format!("{e:?}"))
            .collect();
        actual.sort();
        expected.sort();
        if actual != expected {
            let ea: Vec<_> = actual.iter().filter(|x| !expected.contains(x)).take(2).collect();
            let ee: Vec<_> = expected.iter().filter(|x| !actual.contains(x)).take(2).collect();
            let late = res.skipped_transactions.iter().any(|(_, e)| matches!(e, ExecutorError::FeeOverflow));
            return Err(viol(
                if late { "events-differ-from-utxo-difference:skipped-FeeOverflow" } else { "events-differ-from-utxo-difference" },
                format!("block {height}: {} reported vs {} expected events; reported-only {ea:?}; expected-only {ee:?}", actual.len(), expected.len()),
            ));
        }
        if !expected.is_empty() {
            self.fact("c02:events-checked");
        }
        Ok(())
    }
}

// ---------------------------------------------------------------------------
// C06: a transaction id is executed at most once
// ---------------------------------------------------------------------------
impl ExecSubject {
    fn c06(&self, w: &mut World, _op: &Blk, res: &ExecutionResult) -> Result<(), Violation> {
        let u = &self.u;
        let parent = w.db();
        let m = &mut w.model;
        let height = *res.block.header().height();
        let mut in_block = BTreeSet::new();
        for (idx, tx) in res.block.transactions().iter().enumerate() {
            let id = tx.id(&u.chain_id);
            if m.executed.contains(&id) {
                return Err(viol(
                    if tx.is_mint() { "mint-id-executed-twice" } else { "tx-id-executed-twice" },
                    format!("block {height} executes transaction {id:?} (index {idx}) which was already executed in an earlier block"),
                ));
            }
            if !in_block.insert(id) {
                return Err(viol("tx-id-twice-in-block", format!("block {height} contains transaction {id:?} twice")));
            }
        }
        // crafted blocks that contain an already processed id must be rejected
        let txs = res.block.transactions().to_vec();
        let n = txs.len();
        let mint = mint_of(&res.block).cloned().ok_or_else(|| viol("mint-missing", "produced block has no mint".to_string()))?;
        let bump = |k: u16| -> Transaction {
            Transaction::mint(
                TxPointer::new(height, k),
                mint.input_contract().clone(),
                *mint.output_contract(),
                *mint.mint_amount(),
                *mint.mint_asset_id(),
                *mint.gas_price(),
            )
            .into()
        };
        let mut crafted: Vec<(String, Vec<Transaction>)> = vec![];
        for (i, old) in m.history_txs.iter().enumerate().rev().take(3) {
            let mut v = txs[..n - 1].to_vec();
            v.push(old.clone());
            v.push(bump(n as u16));
            crafted.push((format!("replay-old-tx-{i}"), v));
        }
        for i in 0..n - 1 {
            let mut v = txs[..n - 1].to_vec();
            v.push(txs[i].clone());
            v.push(bump(n as u16));
            crafted.push((format!("dup-in-block-{i}"), v));
        }
        if let Some(old_mint) = m.history_mints.last() {
            let mut v = txs[..n - 1].to_vec();
            v.push(old_mint.clone());
            crafted.push(("reuse-old-mint".to_string(), v));
        }
        for (what, v) in crafted {
            let blk = rebuild_block(&res.block, v, &res.tx_status).map_err(|e| viol("craft-failed", e))?;
            let ex = executor_with(u, parent.clone(), self.utxo_validation);
            match validate(&ex, &blk) {
                Err(e) => {
                    let kind = what.split('-').take(2).collect::<Vec<_>>().join("-");
                    self.fact(format!("c06:crafted-rejected:{kind}:{}", err_class(&e)));
                }
                Ok(_) => {
                    let kind: String = what.rsplitn(2, '-').last().unwrap_or("").to_string();
                    return Err(viol(format!("validation-accepts-processed-id:{kind}"), format!("validation accepted a block at height {height} crafted by {what}")));
                }
            }
        }
        for tx in &txs {
            m.executed.insert(tx.id(&u.chain_id));
            if tx.is_mint() {
                m.history_mints.push(tx.clone());
            } else {
                m.history_txs.push(tx.clone());
            }
        }
        Ok(())
    }
}

// ---------------------------------------------------------------------------
// C04: reverted and skipped transactions
// ---------------------------------------------------------------------------
impl ExecSubject {
    fn c04(&self, w: &World, op: &Blk, t: &Tip, res: &ExecutionResult, cl: &ChangeList) -> Result<(), Violation> {
        let u = &self.u;
        let txs = self.txs_of(op);
        let cb = self.coinbase(op.cb);
        let base = *u.cp.base_asset_id();
        // prefix productions P_0 .. P_n on the same parent (P_n is the block itself)
        let mut prefix: Vec<(ExecutionResult, ChangeList)> = vec![];
        for i in 0..txs.len() {
            let ex = executor_full(u, w.db(), self.utxo_validation, op.rfail as u64);
            let (r, c) = produce(u, &ex, next_header(t, op.da as u64), txs[..i].to_vec(), op.gp, cb, op.src)
                .map_err(|e| viol("prefix-production-failed", format!("producing the prefix of length {i} failed: {e:?}")))?;
            prefix.push((r, change_list(&c)));
        }
        let full: (&ExecutionResult, &ChangeList) = (res, cl);
        let get = |i: usize| -> (&ExecutionResult, &ChangeList) {
            if i == txs.len() {
                full
            } else {
                (&prefix[i].0, &prefix[i].1)
            }
        };
        for i in 1..=txs.len() {
            let (ri, ci) = get(i);
            let (rp, cp) = get(i - 1);
            let ti = &txs[i - 1];
            let id = ti.id(&u.chain_id);
            if let Some((_, err)) = ri.skipped_transactions.iter().find(|(sid, _)| *sid == id).filter(|_| {
                // skipped by this very step: the id is not skipped (or is skipped as often) in the shorter prefix
                ri.skipped_transactions.iter().filter(|(s, _)| *s == id).count() > rp.skipped_transactions.iter().filter(|(s, _)| *s == id).count()
            }) {
                if ci != cp {
                    return Err(viol(
                        format!("skipped-tx-changed-state:{}", err_class(err)),
                        format!("transaction {} was skipped ({err:?}) but the block's storage changes differ from the block without it: {}", self.u.templates[op.txs[i - 1] as usize].name, diff_summary(cp, ci)),
                    ));
                }
                if ri.block.id() != rp.block.id() {
                    return Err(viol("skipped-tx-changed-block", format!("skipped transaction changed the produced block ({err:?})")));
                }
                if events_str(&ri.events) != events_str(&rp.events) {
                    return Err(viol(
                        format!("skipped-tx-left-events:{}", err_class(err)),
                        format!("transaction {} was skipped ({err:?}) but the block's events differ from the block without it", self.u.templates[op.txs[i - 1] as usize].name),
                    ));
                }
                self.fact(format!("c04:skip-checked:{}", err_class(err)));
                continue;
            }
            // executed: find its status
            let Some(pos) = ri.block.transactions().iter().position(|x| x.id(&u.chain_id) == id) else {
                return Err(viol("tx-neither-skipped-nor-included", format!("transaction {id:?} is neither in the block nor in skipped_transactions")));
            };
            let st = &ri.tx_status[pos];
            if !failed(st) {
                continue;
            }
            let fee = *st.result.total_fee();
            let mut di: Dump = (**w.dump()).clone();
            apply_changes(&mut di, ci);
            let mut dp: Dump = (**w.dump()).clone();
            apply_changes(&mut dp, cp);
            // contract state, balances and code untouched (coinbase recipient's base-asset balance is the fee)
            let cb_key: Vec<u8> = fuel_core_storage::ContractsAssetKey::new(&cb, &base).as_ref().to_vec();
            for col in [Column::ContractsState, Column::ContractsAssets, Column::ContractsRawCode] {
                let c = col.as_u32();
                let pick = |d: &Dump| -> BTreeMap<Vec<u8>, Vec<u8>> {
                    d.range((c, vec![])..(c + 1, vec![]))
                        .filter(|((_, k), _)| !(col == Column::ContractsAssets && *k == cb_key))
                        .map(|((_, k), v)| (k.clone(), v.to_vec()))
                        .collect()
                };
                let (a, b) = (pick(&di), pick(&dp));
                if a != b {
                    let k = a.iter().find(|(k, v)| b.get(*k) != Some(*v)).map(|(k, _)| k.clone()).or_else(|| b.keys().find(|k| !a.contains_key(*k)).cloned());
                    return Err(viol(
                        format!("reverted-tx-changed-{col:?}"),
                        format!(
                            "reverted transaction {} changed column {col:?} (key {})",
                            self.u.templates[op.txs[i - 1] as usize].name,
                            k.map(hex::encode).unwrap_or_default()
                        ),
                    ));
                }
            }
            if ri.block.header().message_outbox_root() != rp.block.header().message_outbox_root()
                || ri.block.header().message_receipt_count() != rp.block.header().message_receipt_count()
            {
                return Err(viol("reverted-tx-produced-outbox-message", "the block's outbox root/count changed because of a reverted transaction".to_string()));
            }
            // inputs
            let executed_tx = &ri.block.transactions()[pos];
            for input in executed_tx.inputs().iter() {
                match input {
                    Input::CoinSigned(_) | Input::CoinPredicate(_) => {
                        let key = (Column::Coins.as_u32(), utxo_key(input.utxo_id().unwrap()));
                        if di.contains_key(&key) {
                            return Err(viol("reverted-tx-kept-coin-input", format!("coin input {:?} of a reverted transaction is still unspent", input.utxo_id())));
                        }
                    }
                    Input::MessageCoinSigned(_) | Input::MessageCoinPredicate(_) => {
                        let key = (Column::Messages.as_u32(), input.nonce().unwrap().as_ref().to_vec());
                        if di.contains_key(&key) {
                            return Err(viol("reverted-tx-kept-message-coin-input", format!("message-coin input {:?} of a reverted transaction is still unspent", input.nonce())));
                        }
                    }
                    Input::MessageDataSigned(_) | Input::MessageDataPredicate(_) => {
                        let key = (Column::Messages.as_u32(), input.nonce().unwrap().as_ref().to_vec());
                        if !di.contains_key(&key) {
                            return Err(viol("reverted-tx-consumed-retryable-message", format!("retryable message {:?} was consumed by a reverted transaction", input.nonce())));
                        }
                        self.fact("c04:retryable-kept");
                    }
                    Input::Contract(_) => {}
                }
            }
            // fee
            let price = op.gp;
            if price > 0 && fee == 0 {
                return Err(viol("reverted-tx-paid-no-fee", format!("reverted transaction paid fee 0 at gas price {price}")));
            }
            if cb != ContractId::zeroed() {
                let (mi, mp) = (mint_of(&ri.block).map(|m| *m.mint_amount()), mint_of(&rp.block).map(|m| *m.mint_amount()));
                if let (Some(mi), Some(mp)) = (mi, mp) {
                    if mi.wrapping_sub(mp) != fee {
                        return Err(viol("reverted-tx-fee-not-minted", format!("coinbase grew by {} but the reverted transaction's fee is {fee}", mi.wrapping_sub(mp))));
                    }
                }
            }
            // value conservation of the base asset: spendable inputs - created outputs == fee
            let mut inp: u128 = 0;
            for input in executed_tx.inputs().iter() {
                match input {
                    Input::CoinSigned(_) | Input::CoinPredicate(_) if input.asset_id(&base) == Some(&base) => inp += input.amount().unwrap_or(0) as u128,
                    Input::MessageCoinSigned(_) | Input::MessageCoinPredicate(_) => inp += input.amount().unwrap_or(0) as u128,
                    _ => {}
                }
            }
            let mut outp: u128 = 0;
            let mut has_change = false;
            for o in executed_tx.outputs().iter() {
                match o {
                    Output::Coin { amount, asset_id, .. } | Output::Variable { amount, asset_id, .. } if *asset_id == base => outp += *amount as u128,
                    Output::Change { amount, asset_id, .. } if *asset_id == base => {
                        has_change = true;
                        outp += *amount as u128
                    }
                    _ => {}
                }
            }
            // The VM computes the change with the predicate gas fields zeroed (`prepare_sign` at VM
            // initialisation) while `total_fee` counts the predicate gas: for predicate inputs the payer is
            // charged up to predicate_gas x price less than `total_fee`. That is fuel-vm behaviour (trusted
            // base) and not part of the statement, so it is tolerated and only recorded.
            let pred_gas: u128 = executed_tx.inputs().iter().filter_map(|i| i.predicate_gas_used()).map(|g| g as u128).sum();
            let slack = pred_gas * price as u128 + if pred_gas > 0 { 1 } else { 0 };
            let charged = inp.saturating_sub(outp);
            if has_change && (inp < outp || charged > fee as u128 || charged + slack < fee as u128) {
                return Err(viol("reverted-tx-fee-accounting", format!("reverted transaction: base inputs {inp} != outputs {outp} + fee {fee} (predicate gas {pred_gas})")));
            }
            if has_change && charged != fee as u128 {
                self.fact("info:predicate-gas-counted-in-fee-but-not-deducted-from-change");
            }
            self.fact("c04:revert-checked");
        }
        Ok(())
    }
}

fn utxo_key(id: &UtxoId) -> Vec<u8> {
    let mut k = id.tx_id().as_ref().to_vec();
    k.extend_from_slice(&id.output_index().to_be_bytes());
    k
}

// ---------------------------------------------------------------------------
// C03: mint rules, limits, mint mutations
// ---------------------------------------------------------------------------
impl ExecSubject {
    fn check_mint_rules(&self, block: &Block, statuses: &[TransactionExecutionStatus], gp: Option<u64>, who: &str) -> Result<(), Violation> {
        let txs = block.transactions();
        let n = txs.len();
        let mints = txs.iter().filter(|t| t.is_mint()).count();
        if mints != 1 || !txs.last().map(|t| t.is_mint()).unwrap_or(false) {
            return Err(viol(format!("{who}:mint-count-or-position"), format!("{who} block has {mints} mint transactions / the last transaction is not the mint")));
        }
        let mint = txs[n - 1].as_mint().unwrap();
        if mint.tx_pointer().tx_index() as usize != n - 1 || mint.tx_pointer().block_height() != *block.header().height() {
            return Err(viol(format!("{who}:mint-index"), format!("{who} block: mint tx_pointer {:?} but it is transaction {} of block {}", mint.tx_pointer(), n - 1, block.header().height())));
        }
        if let Some(gp) = gp {
            if *mint.gas_price() != gp {
                return Err(viol(format!("{who}:mint-gas-price"), format!("{who} block: mint gas price {} but block gas price {gp}", mint.gas_price())));
            }
        }
        if statuses.len() != n {
            return Err(viol(format!("{who}:status-count"), format!("{} statuses for {n} transactions", statuses.len())));
        }
        let fees: u128 = statuses[..n - 1].iter().map(|s| *s.result.total_fee() as u128).sum();
        let expected = if mint.input_contract().contract_id == ContractId::zeroed() { 0 } else { fees };
        if *mint.mint_amount() as u128 != expected {
            return Err(viol(
                format!("{who}:mint-amount"),
                format!("{who} block: mint amount {} but the fees of the included transactions sum to {fees} (coinbase {:?})", mint.mint_amount(), mint.input_contract().contract_id),
            ));
        }
        Ok(())
    }

    fn c03(&self, w: &World, op: &Blk, res: &ExecutionResult, cl: &ChangeList) -> Result<(), Violation> {
        let u = &self.u;
        let block = &res.block;
        self.check_mint_rules(block, &res.tx_status, Some(op.gp), "produced")?;
        let n = block.transactions().len();
        // mint mutations
        let mint = mint_of(block).cloned().unwrap();
        let height = *block.header().height();
        let body = block.transactions()[..n - 1].to_vec();
        let mk = |ptr: TxPointer, ic: fuel_core_types::fuel_tx::input::contract::Contract, oc: fuel_core_types::fuel_tx::output::contract::Contract, amount: u64, asset: AssetId, gp: u64| -> Transaction {
            Transaction::mint(ptr, ic, oc, amount, asset, gp).into()
        };
        let same = |amount: u64, gp: u64, idx: u16| mk(TxPointer::new(height, idx), mint.input_contract().clone(), *mint.output_contract(), amount, *mint.mint_asset_id(), gp);
        let amt = *mint.mint_amount();
        let gp = *mint.gas_price();
        let idx = (n - 1) as u16;
        let with_mint = |m: Transaction| {
            let mut v = body.clone();
            v.push(m);
            v
        };
        let mut mutants: Vec<(&str, Vec<Transaction>)> = vec![
            ("amount+1", with_mint(same(amt.wrapping_add(1), gp, idx))),
            ("amount-1", with_mint(same(amt.wrapping_sub(1), gp, idx))),
            ("index+1", with_mint(same(amt, gp, idx.wrapping_add(1)))),
            ("index-1", with_mint(same(amt, gp, idx.wrapping_sub(1)))),
            ("gasprice+1", with_mint(same(amt, gp + 1, idx))),
            ("no-mint", body.clone()),
            ("two-mints", {
                let mut v = body.clone();
                v.push(same(amt, gp, idx));
                v.push(same(amt, gp, idx + 1));
                v
            }),
            ("mint-first", {
                let mut v = vec![same(amt, gp, 0)];
                v.extend(body.clone());
                v
            }),
            ("asset", with_mint(mk(TxPointer::new(height, idx), mint.input_contract().clone(), *mint.output_contract(), amt, u.asset_x, gp))),
            ("height", with_mint(mk(TxPointer::new(height.succ().unwrap(), idx), mint.input_contract().clone(), *mint.output_contract(), amt, *mint.mint_asset_id(), gp))),
        ];
        {
            // other coinbase recipient: none <-> C2, C2 -> C1
            let mut ic = mint.input_contract().clone();
            ic.contract_id = if ic.contract_id == ContractId::zeroed() { u.c2 } else if ic.contract_id == u.c2 { u.c1 } else { ContractId::zeroed() };
            mutants.push(("recipient", with_mint(mk(TxPointer::new(height, idx), ic, *mint.output_contract(), amt, *mint.mint_asset_id(), gp))));
            let mut oc = *mint.output_contract();
            oc.state_root = Bytes32::from([9u8; 32]);
            mutants.push(("output-root", with_mint(mk(TxPointer::new(height, idx), mint.input_contract().clone(), oc, amt, *mint.mint_asset_id(), gp))));
        }
        // amount changes with a matching output balance root: the mint stays self-consistent, so
        // only the amount rule itself can reject it
        if mint.input_contract().contract_id != ContractId::zeroed() {
            use sha2::{Digest, Sha256};
            let base = *u.cp.base_asset_id();
            let key: Vec<u8> = fuel_core_storage::ContractsAssetKey::new(&mint.input_contract().contract_id, &base).as_ref().to_vec();
            let mut post: Dump = (**w.dump()).clone();
            apply_changes(&mut post, cl);
            let after = post.get(&(Column::ContractsAssets.as_u32(), key)).map(|v| u64::from_be_bytes(v[..8].try_into().unwrap_or([0; 8])));
            if let Some(after) = after {
                let before = after.wrapping_sub(amt);
                for (what, a2) in [("amount+1-consistent", amt.wrapping_add(1)), ("amount-1-consistent", amt.wrapping_sub(1))] {
                    let mut h = Sha256::new();
                    h.update(base);
                    h.update([1u8]);
                    h.update(before.wrapping_add(a2).to_be_bytes());
                    let root: [u8; 32] = h.finalize().into();
                    let mut oc = *mint.output_contract();
                    // sanity: the same formula must reproduce the root of the produced mint
                    let mut h0 = Sha256::new();
                    h0.update(base);
                    h0.update([1u8]);
                    h0.update(after.to_be_bytes());
                    let root0: [u8; 32] = h0.finalize().into();
                    if oc.balance_root != Bytes32::from(root0) {
                        self.fact("c03:balance-root-formula-not-applicable");
                        continue;
                    }
                    oc.balance_root = Bytes32::from(root);
                    mutants.push((what, with_mint(mk(TxPointer::new(height, idx), mint.input_contract().clone(), oc, a2, *mint.mint_asset_id(), gp))));
                }
            }
        }
        if op.bulk > 0 {
            mutants.truncate(2);
        }
        for (what, txs) in mutants {
            let blk = rebuild_block(block, txs, &res.tx_status).map_err(|e| viol("craft-failed", e))?;
            let ex = executor_with(u, w.db(), self.utxo_validation);
            match validate(&ex, &blk) {
                Err(e) => self.fact(format!("c03:mutant-rejected:{what}:{}", err_class(&e))),
                Ok((val, _)) => {
                    // accepted: then it must satisfy the mint rules with respect to what validation executed
                    self.check_mint_rules(&blk, &val.tx_status, None, &format!("accepted-mint-mutant[{what}]"))?;
                    self.fact(format!("c03:mutant-accepted-consistent:{what}"));
                }
            }
        }
        // limits (checked last so that the mint checks above run for every produced block)
        let src = match op.src {
            SRC_GREEDY => "hostile-source:greedy:",
            SRC_ONCE => "hostile-source:once:",
            _ => "",
        };
        if n == fuel_core_executor::executor::max_tx_count() as usize + 1 {
            self.fact("c03:count-limit-reached");
        }
        if n > fuel_core_executor::executor::max_tx_count() as usize + 1 {
            return Err(viol(format!("{src}block-tx-count-exceeds-limit"), format!("{n} transactions in the produced block")));
        }
        let gas: u128 = res.tx_status.iter().map(|s| *s.result.total_gas() as u128).sum();
        if gas > u.cp.block_gas_limit() as u128 {
            return Err(viol(format!("{src}block-gas-exceeds-limit"), format!("produced block uses {gas} gas, block_gas_limit is {}", u.cp.block_gas_limit())));
        }
        let size: u64 = block.transactions().iter().map(metered_size).sum();
        if size > u.cp.block_transaction_size_limit() {
            return Err(viol(
                format!("{src}block-size-exceeds-limit"),
                format!(
                    "produced block carries {size} metered transaction bytes in {} transactions, block_transaction_size_limit is {} (source kind {})",
                    n - 1,
                    u.cp.block_transaction_size_limit(),
                    op.src
                ),
            ));
        }
        if gas > 0 {
            self.fact("c03:limits-checked-nonempty");
        }
        Ok(())
    }
}

// ---------------------------------------------------------------------------
// C05: relayer events imported exactly once, inbox root
// ---------------------------------------------------------------------------
impl ExecSubject {
    fn c05(&self, w: &mut World, op: &Blk, t: &Tip, res: &ExecutionResult, new_dump: &Dump) -> Result<(), Violation> {
        let u = &self.u;
        let (p, d) = (t.da, t.da + op.da as u64);
        let mut range_events: Vec<RelayerEvent> = vec![];
        for da in p + 1..=d {
            range_events.extend(u.relayer.get(&da).cloned().unwrap_or_default());
        }
        // messages: exactly those, in order
        let expected_msgs: Vec<String> = range_events.iter().filter_map(|e| if let RelayerEvent::Message(m) = e { Some(format!("{m:?}")) } else { None }).collect();
        let imported: Vec<&Message> = res.events.iter().filter_map(|e| if let ExecEvent::MessageImported(m) = e { Some(m) } else { None }).collect();
        let imported_s: Vec<String> = imported.iter().map(|m| format!("{m:?}")).collect();
        if imported_s != expected_msgs {
            return Err(viol(
                "imported-messages-differ",
                format!("block DA {p}->{d}: imported {} messages, the relayer has {} for heights {}..={d}; imported {:?}", imported_s.len(), expected_msgs.len(), p + 1, imported.iter().map(|m| (m.da_height().0, short(m.nonce().as_ref()))).collect::<Vec<_>>()),
            ));
        }
        for m in &imported {
            if !w.model.imported.insert(*m.nonce()) {
                return Err(viol("message-imported-twice", format!("message {:?} imported again in block DA {p}->{d}", m.nonce())));
            }
            let consumed = res.events.iter().any(|e| matches!(e, ExecEvent::MessageConsumed(c) if c.nonce() == m.nonce()));
            let present = new_dump.contains_key(&(Column::Messages.as_u32(), m.nonce().as_ref().to_vec()));
            if present == consumed {
                return Err(viol("imported-message-not-in-table", format!("imported message {:?}: in Messages table = {present}, consumed in the same block = {consumed}", m.nonce())));
            }
        }
        // forced transactions
        let failed_ids: Vec<Bytes32> = res.events.iter().filter_map(|e| if let ExecEvent::ForcedTransactionFailed { id, .. } = e { Some(id.clone().into()) } else { None }).collect();
        let block_ids: Vec<TxId> = res.block.transactions().iter().map(|x| x.id(&u.chain_id)).collect();
        let mut relayed_count = 0usize;
        for e in &range_events {
            let RelayerEvent::Transaction(rt) = e else { continue };
            relayed_count += 1;
            let rid: Bytes32 = rt.id().into();
            let decoded = Transaction::from_bytes(rt.serialized_transaction()).ok();
            let valid_shape = match &decoded {
                None => false,
                Some(Transaction::Mint(_)) => false,
                Some(tx) => tx.max_gas(&u.cp).map(|g| g <= rt.max_gas()).unwrap_or(false),
            };
            let reported = failed_ids.contains(&rid) || decoded.as_ref().map(|tx| failed_ids.contains(&tx.id(&u.chain_id))).unwrap_or(false);
            let included = decoded.as_ref().map(|tx| block_ids.contains(&tx.id(&u.chain_id))).unwrap_or(false);
            if !valid_shape {
                if !failed_ids.contains(&rid) {
                    return Err(viol("invalid-forced-tx-not-reported", format!("invalid forced transaction {rid:?} (DA {p}->{d}) has no ForcedTransactionFailed event")));
                }
                self.fact("c05:invalid-forced-reported");
            } else if !reported && !included {
                return Err(viol("forced-tx-lost", format!("valid forced transaction {rid:?} (DA {p}->{d}) is neither in the block nor reported as failed")));
            } else if included {
                self.fact("c05:forced-included");
            } else {
                self.fact("c05:forced-failed-reported");
            }
        }
        let l2_in = op.txs.len() - res.skipped_transactions.len().min(op.txs.len());
        let forced_in = res.block.transactions().len().saturating_sub(1 + l2_in);
        if forced_in + failed_ids.len() != relayed_count {
            return Err(viol(
                "forced-tx-count-mismatch",
                format!("block DA {p}->{d}: {forced_in} forced transactions in the block + {} failure events != {relayed_count} relayed transactions of heights {}..={d}", failed_ids.len(), p + 1),
            ));
        }
        // inbox root by an independent in-memory binary Merkle tree
        let mut tree = MerkleTree::new();
        for e in &range_events {
            let leaf: Bytes32 = match e {
                RelayerEvent::Message(m) => (*m.message_id()).into(),
                RelayerEvent::Transaction(rt) => rt.id().into(),
            };
            tree.push(leaf.as_ref());
        }
        let root: Bytes32 = tree.root().into();
        if res.block.header().event_inbox_root() != root {
            return Err(viol(
                "event-inbox-root-mismatch",
                format!("block DA {p}->{d}: header event_inbox_root {:?} != Merkle root {root:?} of the {} events of heights {}..={d}", res.block.header().event_inbox_root(), range_events.len(), p + 1),
            ));
        }
        if !range_events.is_empty() {
            self.fact(format!("c05:da-jump-{}", d - p));
        } else if d > p {
            self.fact("c05:advance-without-events");
        } else {
            self.fact("c05:no-advance");
        }
        let _ = STF_VERSION;
        Ok(())
    }
}

pub fn _unused(_: &Changes, _: &ExecutorError) {}
