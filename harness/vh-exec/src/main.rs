//! vh-exec: executor family C01..C06 (C45, C07 in their own modules).
//! One shared world generator + block-letter alphabet, one oracle per property.
mod c45;
mod chain;
mod subject;
mod universe;

use chain::{SRC_CHECKED, SRC_GREEDY, SRC_HONEST, SRC_ONCE};
use mcx::*;
use serde_json::json;
use subject::{Blk, ExecSubject, Prop};
use universe::{CpVariant, Universe};

fn main() {
    let cli = Cli::parse();
    match cli.property.as_str() {
        "C01" => run_prop(&cli, Prop::C01),
        "C02" => run_prop(&cli, Prop::C02),
        "C03" => run_prop(&cli, Prop::C03),
        "C04" => run_prop(&cli, Prop::C04),
        "C05" => run_prop(&cli, Prop::C05),
        "C06" => run_prop(&cli, Prop::C06),
        "C45" => run_prop(&cli, Prop::C45),
        "probe" => probe(),
        other => machinery_failure(&format!("vh-exec does not serve {other}")),
    }
}

/// Development aid: run every template alone on the genesis state and print what happens.
fn probe() {
    use chain::*;
    let u = Universe::new(CpVariant::Default, 1);
    for da in [0u64, 3] {
        for (i, t) in u.templates.iter().enumerate() {
            let db = ChainDb::from_snaps(&[u.genesis.clone()]);
            let tp = tip(&db);
            let ex = executor(&u, db);
            let t0 = std::time::Instant::now();
            let r = produce(&u, &ex, next_header(&tp, da), vec![t.tx.clone()], 1, u.c2, 0);
            let el = t0.elapsed();
            match r {
                Ok((res, ch)) => {
                    let st: Vec<String> = res
                        .tx_status
                        .iter()
                        .map(|s| format!("{}(gas {}, fee {})", if subject::failed(s) { "F" } else { "S" }, s.result.total_gas(), s.result.total_fee()))
                        .collect();
                    let sk: Vec<String> = res.skipped_transactions.iter().map(|(_, e)| format!("{e:?}")).collect();
                    use fuel_core_types::blockchain::transaction::TransactionExt;
                    println!(
                        "da+{da} #{i} {}: max_gas {:?} size {} status {:?} skipped {:?} events {} changes {} [{:?}]",
                        t.name,
                        t.tx.max_gas(&u.cp).ok(),
                        metered_size(&t.tx),
                        st,
                        sk,
                        res.events.len(),
                        change_list(&ch).len(),
                        el
                    );
                }
                Err(e) => println!("da+{da} #{i} {}: PRODUCE ERROR {e:?}", t.name),
            }
        }
    }
}

fn t(u: &Universe, names: &[&str]) -> Vec<u8> {
    names.iter().map(|n| u.tid(n)).collect()
}

/// Ordered transaction lists of length <= `max_len` over `singles`.
fn lists(singles: &[u8], max_len: usize) -> Vec<Vec<u8>> {
    let mut out: Vec<Vec<u8>> = vec![vec![]];
    let mut layer: Vec<Vec<u8>> = vec![vec![]];
    for _ in 0..max_len {
        let mut next = vec![];
        for l in &layer {
            for s in singles {
                let mut v = l.clone();
                v.push(*s);
                next.push(v);
            }
        }
        out.extend(next.iter().cloned());
        layer = next;
    }
    out
}

fn letters(lists: &[Vec<u8>], params: &[(u64, u8, u8)], src: u8) -> Vec<Blk> {
    let mut v = vec![];
    for l in lists {
        for (gp, cb, da) in params {
            v.push(Blk { txs: l.clone(), gp: *gp, cb: *cb, da: *da, src, bulk: 0, rfail: 0 });
        }
    }
    v
}

struct Plan {
    subject: ExecSubject,
    depth: usize,
}

fn all_templates(u: &Universe) -> Vec<u8> {
    (0..u.templates.len() as u8).collect()
}

fn plans(cli: &Cli, prop: Prop) -> Vec<Plan> {
    let thorough = cli.tier == Tier::Thorough;
    let mut out = vec![];
    let params_full: Vec<(u64, u8, u8)> = {
        let mut p = vec![];
        for gp in [0u64, 1] {
            for cb in [0u8, 1] {
                for da in [0u8, 1, 2] {
                    p.push((gp, cb, da));
                }
            }
        }
        p
    };
    match prop {
        Prop::C01 | Prop::C02 | Prop::C06 => {
            // (a) wide and shallow: every ordered list of <=2 (thorough <=3 over the core set) templates, one block
            let u = Universe::new(CpVariant::Default, 1);
            let all = all_templates(&u);
            let wide = letters(&lists(&all, 2), &if thorough { params_full.clone() } else { vec![(1, 1, 0), (0, 0, 2), (1, 0, 1)] }, 0);
            out.push(Plan { subject: ExecSubject::new("wide: <=2 of all templates, 1 block", u.clone(), prop, wide), depth: 1 });
            // (a') the same lists handed over pre-checked, as the pool does
            let wide_checked = letters(&lists(&all, 1), &[(1, 1, 1), (0, 0, 2)], SRC_CHECKED);
            out.push(Plan { subject: ExecSubject::new("wide, pre-checked transactions (pool-like source)", u.clone(), prop, wide_checked), depth: 2 });
            if thorough {
                let pairs_checked = letters(&lists(&all, 2), &[(1, 1, 1), (0, 0, 2)], SRC_CHECKED);
                out.push(Plan { subject: ExecSubject::new("pairs of pre-checked transactions (pool-like source), 1 block", u.clone(), prop, pairs_checked), depth: 1 });
            }
            // (b) deep: histories of blocks over a core set
            let core_names: Vec<&str> = if (thorough && prop != Prop::C06) || prop == Prop::C02 {
                let v = vec!["xfer", "dblspend", "dep", "call_ok", "call_rvrt", "call_tro", "create", "call_c3", "msgdata_rvrt", "msgdata_ok", "msg_early", "msg_relayed", "expiring", "noout", "missing", "call_smo", "upgrade_cp"];
                v
            } else {
                vec!["xfer", "dblspend", "dep", "call_ok", "call_rvrt", "create", "call_c3", "msgdata_rvrt", "msgdata_ok", "msg_relayed", "expiring", "noout", "upgrade_cp", "create_empty", "read_empty", "slot_empty_a", "slot_empty_b"]
            };
            let core = t(&u, &core_names);
            let deep_lists = if thorough { lists(&core, 2) } else { lists(&core, 1) };
            let deep_params: Vec<(u64, u8, u8)> = if thorough && prop == Prop::C06 {
                vec![(0, 0, 1), (1, 1, 0)]
            } else if thorough {
                vec![(0, 0, 0), (1, 1, 1), (1, 2, 2)]
            } else if prop == Prop::C02 {
                vec![(0, 0, 1), (1, 1, 0), (1, 2, 2)]
            } else {
                vec![(0, 0, 1), (1, 1, 0)]
            };
            let deep = letters(&deep_lists, &deep_params, 0);
            out.push(Plan { subject: ExecSubject::new("deep: histories over the core templates", u.clone(), prop, deep), depth: if thorough { 2 } else { 3 } });
            if thorough {
                let l3 = letters(&lists(&core[..10], 3), &[(1, 1, 1)], 0);
                out.push(Plan { subject: ExecSubject::new("triples: <=3 of 10 core templates, 1 block", u.clone(), prop, l3), depth: 1 });
                let singles = letters(&lists(&core[..core.len().min(13)], 1), &[(0, 0, 1), (1, 1, 0)], 0);
                out.push(Plan { subject: ExecSubject::new("deeper: 4-block histories of single-transaction blocks", u.clone(), prop, singles), depth: 4 });
            }
            // (c) tight limits
            for v in [CpVariant::TinyGas, CpVariant::TinySize] {
                let u = Universe::new(v, 3);
                let set = t(&u, &["xfer", "call_oog", "spin", "call_ok", "big", "xfer_b"]);
                let l = letters(&lists(&set, 3), &[(1, 1, 0), (0, 0, 1)], if v == CpVariant::TinySize { SRC_HONEST } else { 0 });
                out.push(Plan { subject: ExecSubject::new(&format!("limits {v:?}: lists<=3 of 6 templates"), u, prop, l), depth: if thorough { 2 } else { 1 } });
            }
            if prop == Prop::C06 {
                // (d) UTXO validation off: only the processed-id check stands between a resubmission and a second execution
                let u = Universe::new(CpVariant::Default, 1);
                let set = t(&u, &["xfer", "noout", "call_rvrt", "msgdata_rvrt", "dblspend", "missing", "create", "rvrt_noout"]);
                let l = letters(&lists(&set, 1), &[(0, 0, 0), (1, 1, 1)], 0);
                let mut s = ExecSubject::new("utxo validation off: resubmissions", u.clone(), prop, l);
                s.utxo_validation = false;
                out.push(Plan { subject: s, depth: if thorough { 4 } else { 3 } });
                if thorough {
                    let l = letters(&lists(&set, 2), &[(0, 0, 0), (1, 1, 1)], 0);
                    let mut s = ExecSubject::new("utxo validation off: resubmissions, blocks of <=2", u, prop, l);
                    s.utxo_validation = false;
                    out.push(Plan { subject: s, depth: 2 });
                }
            }
        }
        Prop::C04 => {
            let u = Universe::new(CpVariant::Default, 1);
            let all = all_templates(&u);
            let wide = letters(&lists(&all, 2), &if thorough { vec![(0, 0, 0), (1, 1, 0), (2, 2, 1), (1, 1, 2), (1, 0, 0)] } else { vec![(1, 1, 0), (0, 0, 2), (2, 2, 1)] }, 0);
            out.push(Plan { subject: ExecSubject::new("wide: <=2 of all templates, 1 block", u.clone(), prop, wide), depth: 1 });
            let core = t(&u, &["xfer", "call_ok", "call_rvrt", "call_panic", "call_oog", "call_smo", "msgdata_rvrt", "msgdata_ok", "dblspend", "expiring", "msg_early", "call_tro", "preddata_rvrt", "predmsg_rvrt"]);
            let deep = letters(&lists(&core, if thorough { 2 } else { 1 }), &[(1, 1, 0), (1, 2, 1)], 0);
            out.push(Plan { subject: ExecSubject::new("deep: histories with reverting scripts", u.clone(), prop, deep), depth: if thorough { 2 } else { 3 } });
            if thorough {
                let l3 = letters(&lists(&core[..8], 3), &[(1, 1, 0)], 0);
                out.push(Plan { subject: ExecSubject::new("triples: <=3 of 8 templates", u.clone(), prop, l3), depth: 1 });
                let singles = letters(&lists(&core, 1), &[(1, 1, 0), (1, 2, 1)], 0);
                out.push(Plan { subject: ExecSubject::new("deeper: 4-block histories of single-transaction blocks", u.clone(), prop, singles), depth: 4 });
            }
            {
                // UTXO validation off: some inputs are only found missing after the VM ran
                let u = Universe::new(CpVariant::Default, 1);
                let set = t(&u, &["xfer", "msg_missing", "call_rvrt", "missing", "msgdata_rvrt", "rvrt_noout"]);
                let l = letters(&lists(&set, 2), &[(1, 1, 0), (2, 2, 1)], 0);
                let mut s = ExecSubject::new("utxo validation off: transactions skipped after their VM run", u, prop, l);
                s.utxo_validation = false;
                out.push(Plan { subject: s, depth: if thorough { 2 } else { 1 } });
            }
            let u = Universe::new(CpVariant::TinyGas, 0);
            let set = t(&u, &["xfer", "call_oog", "spin", "call_rvrt", "call_ok"]);
            let l = letters(&lists(&set, 3), &[(1, 1, 0)], 0);
            out.push(Plan { subject: ExecSubject::new("limits TinyGas: gas-overflow skips", u, prop, l), depth: if thorough { 2 } else { 1 } });
        }
        Prop::C03 => {
            for (v, src) in [
                (CpVariant::Default, SRC_ONCE),
                (CpVariant::TinyGas, SRC_HONEST),
                (CpVariant::TinyGas, SRC_ONCE),
                (CpVariant::TinyGas, SRC_GREEDY),
                (CpVariant::TinySize, SRC_HONEST),
                (CpVariant::TinySize, SRC_ONCE),
                (CpVariant::TinySize, SRC_GREEDY),
            ] {
                let u = Universe::new(v, 0);
                let set = if v == CpVariant::Default {
                    t(&u, &["xfer", "dblspend", "call_ok", "call_rvrt", "call_oog", "create", "msg_coin", "pred", "blob", "tip", "multi", "missing", "mint_src", "noout", "big"])
                } else {
                    t(&u, &["xfer", "call_oog", "spin", "call_ok", "big", "xfer_b"])
                };
                let params: Vec<(u64, u8, u8)> = if thorough {
                    if v == CpVariant::Default { vec![(0, 1, 0), (1, 0, 0), (1, 1, 0), (2, 2, 0)] } else { vec![(0, 0, 0), (0, 1, 0), (1, 0, 0), (1, 1, 0), (2, 2, 0), (3, 1, 0)] }
                } else if v == CpVariant::Default {
                    vec![(0, 0, 0), (0, 1, 0), (1, 0, 0), (1, 1, 0), (2, 2, 0)]
                } else {
                    vec![(0, 1, 0), (1, 0, 0), (2, 2, 0)]
                };
                let max_len = if v == CpVariant::Default {
                    if thorough { 3 } else { 2 }
                } else if thorough {
                    4
                } else if src == SRC_HONEST {
                    3
                } else {
                    2
                };
                let l = letters(&lists(&set, max_len), &params, src);
                let kind = ["once-source", "greedy-source", "honest-source"][src as usize];
                if thorough && v == CpVariant::Default {
                    let singles = letters(&lists(&set, 1), &params, src);
                    out.push(Plan { subject: ExecSubject::new("Default once-source: 2-block histories of single-transaction blocks", u.clone(), prop, singles), depth: 2 });
                }
                out.push(Plan { subject: ExecSubject::new(&format!("{v:?} {kind}: lists<={max_len}"), u, prop, l), depth: 1 });
            }
            {
                // UTXO validation off: a transaction can be skipped after its VM run (inputs found missing when spent)
                let u = Universe::new(CpVariant::Default, 0);
                let set = t(&u, &["xfer", "msg_missing", "call_rvrt", "missing", "tip", "rvrt_noout"]);
                let l = letters(&lists(&set, if thorough { 3 } else { 2 }), &[(1, 1, 0), (2, 2, 0), (0, 1, 0), (1, 0, 0)], SRC_ONCE);
                let mut s = ExecSubject::new("Default once-source, UTXO validation off: lists<=2", u, prop, l);
                s.utxo_validation = false;
                out.push(Plan { subject: s, depth: 1 });
            }
            if thorough {
                // the transaction-count limit with its production value (u16::MAX - 1, plus the mint):
                // sources that return more transactions than that
                let n = fuel_core_executor::executor::max_tx_count() as usize + 40;
                let u = Universe::new_bulk(CpVariant::Huge, 0, n);
                let mut l = vec![];
                for src in [SRC_GREEDY, SRC_ONCE] {
                    l.push(Blk { txs: vec![], gp: 1, cb: 1, da: 0, src, bulk: n as u32, rfail: 0 });
                }
                l.push(Blk { txs: vec![], gp: 1, cb: 1, da: 0, src: SRC_GREEDY, bulk: 1000, rfail: 0 });
                out.push(Plan { subject: ExecSubject::new("count limit: sources returning more than max_tx_count transactions", u, prop, l), depth: 1 });
            }
        }
        Prop::C45 => {
            let u = Universe::new(CpVariant::Default, 1);
            let core = t(&u, &["xfer", "call_ok", "call_rvrt", "create", "msgdata_ok"]);
            let mut l = letters(&lists(&core, 1), &[(1, 1, 1)], 0);
            l.push(Blk { txs: t(&u, &["xfer", "call_ok"]), gp: 0, cb: 0, da: 0, src: 0, bulk: 0, rfail: 0 });
            let mut s = ExecSubject::new("chains over 5 templates x dry-run request grid", u, prop, l);
            s.thorough = thorough;
            out.push(Plan { subject: s, depth: if thorough { 3 } else { 2 } });
        }
        Prop::C05 => {
            for script in 1..=3u8 {
                let u = Universe::new(CpVariant::Default, script);
                let ls: Vec<Vec<u8>> = if thorough {
                    let mut v = lists(&t(&u, &["xfer", "msg_relayed", "msg_early", "dep", "call_ok"]), 1);
                    v.extend([t(&u, &["xfer", "dep"]), t(&u, &["msg_relayed", "msg_early"]), t(&u, &["msg_early", "msg_relayed"]), t(&u, &["xfer", "xfer"]), t(&u, &["msg_relayed", "msg_relayed"])]);
                    v
                } else {
                    vec![vec![], t(&u, &["msg_relayed"]), t(&u, &["xfer"]), t(&u, &["msg_early"]), t(&u, &["xfer", "dep"])]
                };
                let mut params = vec![];
                for da in 0..=3u8 {
                    params.push((0u64, 0u8, da));
                    if thorough || da % 2 == 1 {
                        params.push((1, 1, da));
                    }
                }
                let mut l = letters(&ls, &params, 0);
                // deviation: the relayer fails to read the events of one DA height
                for fail in 1..=3u8 {
                    for da in 1..=3u8 {
                        l.push(Blk { txs: vec![], gp: 0, cb: 0, da, src: 0, bulk: 0, rfail: fail });
                        if thorough {
                            l.push(Blk { txs: t(&u, &["xfer"]), gp: 1, cb: 1, da, src: 0, bulk: 0, rfail: fail });
                        }
                    }
                }
                out.push(Plan { subject: ExecSubject::new(&format!("relayer script {script}: DA advances 0..=3, relayer read failures"), u, prop, l), depth: 3 });
            }
        }
    }
    out
}

fn required_facts(prop: Prop) -> Vec<&'static str> {
    match prop {
        Prop::C01 => vec!["c01:rechecked-after-upgrade", "c01:validated", "status:failed", "skip:TransactionIdCollision", "skip:TransactionValidity.CoinDoesNotExist", "skip:GasOverflow"],
        Prop::C02 => vec!["c02:events-checked", "c02:retryable-kept", "c02:zero-output-not-created", "skip:TransactionValidity.CoinDoesNotExist", "skip:TransactionValidity.MessageSpendTooEarly"],
        Prop::C03 => vec!["skip:MessageDoesNotExist", "c03:limits-checked-nonempty", "c03:mutant-rejected:amount+1", "c03:mutant-rejected:amount+1-consistent", "c03:mutant-rejected:amount-1-consistent", "c03:mutant-rejected:index+1", "c03:mutant-rejected:no-mint", "c03:mutant-rejected:two-mints", "skip:GasOverflow"],
        Prop::C04 => vec![
            "c04:revert-checked",
            "c04:retryable-kept",
            "c04:skip-checked:GasOverflow",
            "c04:skip-checked:MessageDoesNotExist",
            "c04:skip-checked:FeeOverflow",
            "c04:skip-checked:TransactionIdCollision",
            "c04:skip-checked:TransactionValidity.CoinDoesNotExist",
            "c04:skip-checked:TransactionValidity.CoinMismatch",
            "c04:skip-checked:TransactionValidity.MessageSpendTooEarly",
        ],
        Prop::C05 => vec!["produce-err:RelayerError", "c05:invalid-forced-reported", "c05:forced-included", "c05:forced-failed-reported", "c05:da-jump-1", "c05:da-jump-2", "c05:da-jump-3", "c05:no-advance"],
        Prop::C06 => vec!["skip:TransactionIdCollision", "c06:crafted-rejected"],
        Prop::C45 => vec!["c45:producer-ok", "c45:producer-err", "c45:executor-ok", "c45:executor-err", "c45:reverting-dry-run", "c45:storage-reads-recorded", "c45:past-height-ok"],
    }
}

fn run_prop(cli: &Cli, prop: Prop) {
    let plans = plans(cli, prop);
    if let Some(path) = &cli.replay {
        let rf = load_replay(path);
        for p in &plans {
            if p.subject.name == rf.subject {
                replay_and_exit(&p.subject, &rf);
            }
        }
        machinery_failure("replay: unknown subject");
    }
    let mut run = Run::new(cli, "model_checking");
    let mut facts: std::collections::BTreeMap<String, u64> = Default::default();
    let n = plans.len() as u64;
    for p in &plans {
        let b = Bounds::new(p.depth, cli).wall(cli.tier.pick(55, 1500) / n.max(1) + 5);
        let r = explore(&p.subject, &b);
        for (k, v) in p.subject.facts() {
            *facts.entry(k).or_default() += v;
        }
        run.note(&format!("alphabet[{}]", p.subject.name), json!({"letters": p.subject.alphabet.len(), "depth": p.depth, "templates": p.subject.u.templates.len()}));
        run.add(r);
    }
    let violated = run.reports.iter().any(|r| !r.violations.is_empty());
    for f in required_facts(prop) {
        if !facts.keys().any(|k| k.starts_with(f)) && !violated {
            machinery_failure(&format!("vacuous run: fact `{f}` never observed"));
        }
    }
    run.note("facts", json!(facts));
    run.assume("executor runs with UTXO validation on (forbid_fake_coins = true), native execution strategy, in-memory on-chain database restored from a full column dump per step");
    run.assume("transaction universe = the fixed templates of vh-exec/src/universe.rs; relayer = scripted mock of the RelayerPort");
    run.finish();
}
