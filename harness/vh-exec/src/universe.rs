//! The shared world generator of the executor family (C01-C07, C45):
//! consensus parameters, keys, genesis state, the transaction templates and
//! the relayer (DA layer) scripts.
use crate::chain::{ChainDb, Dump};
use fuel_core_storage::{
    tables::{
        Coins, ConsensusParametersVersions, ContractsAssets, ContractsLatestUtxo, ContractsRawCode, FuelBlocks, Messages,
        ProcessedTransactions, SealedBlockConsensus, StateTransitionBytecodeVersions,
    },
    transactional::WriteTransaction,
    ContractsAssetKey, StorageAsMut,
};
use fuel_core_types::{
    blockchain::{
        block::PartialFuelBlock,
        consensus::{Consensus, Genesis},
        header::{ApplicationHeader, ConsensusHeader, PartialBlockHeader},
        primitives::DaBlockHeight,
    },
    entities::{
        coins::coin::{CompressedCoin, CompressedCoinV1},
        contract::ContractUtxoInfo,
        relayer::{
            message::{Message, MessageV1},
            transaction::{RelayedTransaction, RelayedTransactionV1},
        },
    },
    fuel_asm::{op, GTFArgs, RegId},
    fuel_crypto::SecretKey,
    fuel_tx::{
        BlobBody, BlobId, BlobIdExt, Bytes32, ConsensusParameters, FeeParameters, Finalizable, Input, Output,
        Transaction, TransactionBuilder, TxId, TxPointer, UniqueIdentifier, UtxoId, Witness,
    },
    fuel_types::{canonical::Serialize as _, Address, AssetId, BlockHeight, ChainId, ContractId, Nonce},
    fuel_vm::{
        checked_transaction::EstimatePredicates, interpreter::MemoryInstance, predicate::EmptyStorage, Call, CallFrame, Contract,
        Salt,
    },
    services::relayer::Event,
    tai64::Tai64,
};
use std::collections::BTreeMap;

pub const COIN: u64 = 10_000_000;
pub const MAX_FEE: u64 = 2_000_000;
pub const BIG_TIP: u64 = 1 << 63;
pub const BIG_COIN: u64 = (1 << 63) + 4_000_000;
pub const GAS: u64 = 10_000;
pub const STF_VERSION: u32 = fuel_core_types::blockchain::header::LATEST_STATE_TRANSITION_VERSION;
pub const TIME0: u64 = (1u64 << 62) + 1_700_000_000;

/// Consensus-parameter variants (each is its own genesis world).
#[derive(Clone, Copy, Debug, PartialEq, Eq, serde::Serialize, serde::Deserialize)]
pub enum CpVariant {
    /// Large limits: nothing is squeezed out by the block limits.
    Default,
    /// `block_gas_limit` so small that a second transaction fits only after a cheap first one.
    TinyGas,
    /// `block_transaction_size_limit` so small that at most one template fits.
    TinySize,
    /// Gas and size limits out of the way: only the transaction-count limit can bind.
    Huge,
}

#[derive(Clone)]
pub struct Template {
    pub name: &'static str,
    pub tx: Transaction,
    pub id: TxId,
}

#[derive(Clone)]
pub struct Universe {
    pub variant: CpVariant,
    pub relayer_script: u8,
    pub cp: ConsensusParameters,
    pub chain_id: ChainId,
    pub addr_a: Address,
    pub addr_b: Address,
    pub c1: ContractId,
    pub c2: ContractId,
    pub asset_x: AssetId,
    pub genesis: std::sync::Arc<Dump>,
    pub genesis_coins: Vec<(UtxoId, CompressedCoin)>,
    pub genesis_msgs: Vec<Message>,
    pub genesis_processed: Vec<TxId>,
    pub templates: Vec<Template>,
    pub relayer: BTreeMap<u64, Vec<Event>>,
    /// many independent minimal transfers (each spends its own genesis coin), for the count limit
    pub bulk: Vec<Transaction>,
}

fn sk(b: u8) -> SecretKey {
    let mut k = [0u8; 32];
    k[31] = b;
    k[0] = 1;
    SecretKey::try_from(&k[..]).expect("valid secret key")
}

fn gid(i: u8) -> UtxoId {
    let mut b = [0xC0u8; 32];
    b[31] = i;
    UtxoId::new(Bytes32::from(b), 0)
}

fn nonce(i: u8) -> Nonce {
    let mut b = [0x4Eu8; 32];
    b[31] = i;
    Nonce::from(b)
}

fn bytes(ops: Vec<fuel_core_types::fuel_asm::Instruction>) -> Vec<u8> {
    ops.into_iter().collect()
}

/// The dispatcher contract C1: always bumps two storage slots and logs, then
/// behaves according to call parameter `a`:
/// 0 return, 1 revert, 2 panic, 3 transfer-out 7 coins to the address in the
/// script data (variable output 1), 4 send an L1 message with 5 coins,
/// 5 spin until out of gas.
fn c1_code() -> Vec<u8> {
    let a_off = u16::try_from(CallFrame::a_offset()).unwrap();
    bytes(vec![
        op::addi(0x10, RegId::FP, a_off),
        op::lw(0x10, 0x10, 0),
        op::move_(0x12, RegId::SP),
        op::cfei(32),
        op::mcli(0x12, 32),
        op::srw(0x13, 0x14, 0x12, 0),
        op::addi(0x13, 0x13, 1),
        op::sww(0x12, 0x14, 0x13),
        op::sb(0x12, 0x10, 31),
        op::srw(0x13, 0x14, 0x12, 0),
        op::addi(0x13, 0x13, 1),
        op::sww(0x12, 0x14, 0x13),
        op::log(0x13, 0x10, RegId::ZERO, RegId::ZERO),
        op::gtf_args(0x15, RegId::ZERO, GTFArgs::ScriptData),
        op::addi(0x17, 0x15, 80),
        // a == 1: revert
        op::movi(0x16, 1),
        op::jnef(0x10, 0x16, RegId::ZERO, 1),
        op::rvrt(RegId::ONE),
        // a == 2: panic (read beyond the memory)
        op::movi(0x16, 2),
        op::jnef(0x10, 0x16, RegId::ZERO, 2),
        op::not(0x18, RegId::ZERO),
        op::lw(0x18, 0x18, 0),
        // a == 3: transfer out
        op::movi(0x16, 3),
        op::jnef(0x10, 0x16, RegId::ZERO, 3),
        op::movi(0x18, 7),
        op::movi(0x19, 1),
        op::tro(0x17, 0x19, 0x18, 0x15),
        // a == 4: message out
        op::movi(0x16, 4),
        op::jnef(0x10, 0x16, RegId::ZERO, 3),
        op::movi(0x18, 5),
        op::movi(0x19, 8),
        op::smo(0x17, 0x15, 0x19, 0x18),
        // a == 5: spin
        op::movi(0x16, 5),
        op::jnef(0x10, 0x16, RegId::ZERO, 2),
        op::noop(),
        op::jmpb(RegId::ZERO, 0),
        op::ret(RegId::ONE),
    ])
}

fn call_script(fwd: u32) -> Vec<u8> {
    bytes(vec![
        op::gtf_args(0x10, RegId::ZERO, GTFArgs::ScriptData),
        op::addi(0x11, 0x10, 32),
        op::movi(0x12, fwd),
        op::call(0x11, 0x12, 0x10, RegId::CGAS),
        op::ret(RegId::ONE),
    ])
}

fn call_data(asset: AssetId, contract: ContractId, a: u64, recipient: Address) -> Vec<u8> {
    let mut d = asset.as_ref().to_vec();
    d.extend_from_slice(&Call::new(contract, a, 0).to_bytes());
    d.extend_from_slice(recipient.as_ref());
    d
}

fn contract_id_of(code: &[u8], salt_b: u8) -> (ContractId, Salt, Bytes32) {
    let salt = Salt::from([salt_b; 32]);
    let root = Contract::root_from_code(code);
    let state_root = Contract::default_state_root();
    (Contract::id(&salt, &root, &state_root), salt, state_root)
}

fn contract_in(c: ContractId) -> Input {
    Input::contract(UtxoId::default(), Bytes32::zeroed(), Bytes32::zeroed(), TxPointer::default(), c)
}

impl Universe {
    pub fn new(variant: CpVariant, relayer_script: u8) -> Universe {
        Self::new_bulk(variant, relayer_script, 0)
    }

    pub fn new_bulk(variant: CpVariant, relayer_script: u8, bulk_n: usize) -> Universe {
        let mut cp = ConsensusParameters::standard();
        cp.set_fee_params(FeeParameters::DEFAULT.with_gas_price_factor(1));
        let ska = sk(0xA1);
        let skb = sk(0xB2);
        let addr_a = Input::owner(&ska.public_key());
        let addr_b = Input::owner(&skb.public_key());
        cp.set_privileged_address(addr_a);
        match variant {
            CpVariant::Default => {}
            CpVariant::TinyGas => cp.set_block_gas_limit(45_000),
            CpVariant::TinySize => {
                cp.set_block_transaction_size_limit(600).expect("valid size limit");
            }
            CpVariant::Huge => {
                cp.set_block_gas_limit(u64::MAX / 4);
                cp.set_block_transaction_size_limit(u64::MAX / 4).expect("valid size limit");
            }
        }
        let chain_id = cp.chain_id();
        let base = *cp.base_asset_id();
        let asset_x = AssetId::from([7u8; 32]);

        let c1_code = c1_code();
        let (c1, _, _) = contract_id_of(&c1_code, 1);
        let c2_code = bytes(vec![op::ret(RegId::ONE)]);
        let (c2, _, _) = contract_id_of(&c2_code, 2);
        let c3_code = bytes(vec![
            op::move_(0x12, RegId::SP),
            op::cfei(32),
            op::mcli(0x12, 32),
            op::srw(0x13, 0x14, 0x12, 0),
            op::addi(0x13, 0x13, 3),
            op::sww(0x12, 0x14, 0x13),
            op::ret(RegId::ONE),
        ]);
        let (c3, c3_salt, c3_state_root) = contract_id_of(&c3_code, 3);

        // C4: reads storage slot 0 (logging value and "was set" flag), then stores an EMPTY value in it
        let c4_code = bytes(vec![
            op::move_(0x12, RegId::SP),
            op::cfei(32),
            op::mcli(0x12, 32),
            op::srw(0x13, 0x14, 0x12, 0),
            op::log(0x13, 0x14, RegId::ZERO, RegId::ZERO),
            op::swri(0x12, 0x12, 0),
            op::ret(RegId::ONE),
        ]);
        let (c4, _, _) = contract_id_of(&c4_code, 4);
        // C5: a contract with empty bytecode, created by template `create_empty`
        let (c5, c5_salt, c5_state_root) = contract_id_of(&[], 5);
        let predicate = bytes(vec![op::ret(RegId::ONE)]);
        let pred_owner = Input::predicate_owner(&predicate);

        // ---- genesis coins and messages -------------------------------------
        let mut genesis_coins: Vec<(UtxoId, CompressedCoin)> = vec![];
        let mut coin = |i: u8, owner: Address, amount: u64, asset: AssetId| {
            let c: CompressedCoin = CompressedCoinV1 { owner, amount, asset_id: asset, tx_pointer: TxPointer::default() }.into();
            genesis_coins.push((gid(i), c));
            gid(i)
        };
        for i in 0..48u8 {
            // even slots belong to A, a few to B
            let owner = if matches!(i, 2 | 31) { addr_b } else { addr_a };
            // two coins are large enough to carry a tip of 2^63
            coin(i, owner, if matches!(i, 45 | 46) { BIG_COIN } else { COIN }, base);
        }
        coin(50, addr_a, 1000, asset_x);
        coin(51, pred_owner, COIN, base);
        let sender = Address::from([0x5Eu8; 32]);
        let msg = |i: u8, amount: u64, data: Vec<u8>, da: u64| -> Message {
            MessageV1 { sender, recipient: addr_a, nonce: nonce(i), amount, data, da_height: DaBlockHeight(da) }.into()
        };
        let m1 = msg(1, 5_000_000, vec![], 0);
        let m2 = msg(2, 3000, vec![0xDA; 8], 0);
        let m3 = msg(3, 4_000_000, vec![], 2);
        let r1 = msg(11, 6_000_000, vec![], 1);
        let r2 = msg(12, 777, vec![1, 2, 3], 2);
        let r3 = msg(13, 888, vec![], 3);
        let r4 = msg(14, 999, vec![], 2);
        let m4 = msg(4, 3000, vec![0xEE; 4], 0);
        // messages owned by the predicate: a coin message and a retryable data message
        let m5: Message = MessageV1 { sender, recipient: pred_owner, nonce: nonce(5), amount: 5_000_000, data: vec![], da_height: DaBlockHeight(0) }.into();
        let m6: Message = MessageV1 { sender, recipient: pred_owner, nonce: nonce(6), amount: 3000, data: vec![0xD6; 4], da_height: DaBlockHeight(0) }.into();
        let m7 = msg(7, 1_000_000, vec![], 2);
        let genesis_msgs = vec![m1.clone(), m2.clone(), m3.clone(), m4.clone(), m5.clone(), m6.clone(), m7.clone()];

        // ---- bulk transfers ----------------------------------------------------
        let mut bulk: Vec<Transaction> = Vec::with_capacity(bulk_n);
        for i in 0..bulk_n {
            let mut b = [0xB0u8; 32];
            b[28..32].copy_from_slice(&(i as u32).to_be_bytes());
            let id = UtxoId::new(Bytes32::from(b), 0);
            let c: CompressedCoin = CompressedCoinV1 { owner: addr_a, amount: COIN, asset_id: base, tx_pointer: TxPointer::default() }.into();
            genesis_coins.push((id, c));
            let mut tb = TransactionBuilder::script(vec![], vec![]);
            tb.with_params(cp.clone()).script_gas_limit(0).max_fee_limit(MAX_FEE);
            tb.add_unsigned_coin_input(ska, id, COIN, base, TxPointer::default());
            bulk.push(tb.finalize_as_transaction());
        }

        // ---- templates ------------------------------------------------------
        let mut templates: Vec<Template> = vec![];
        let mut push = |name: &'static str, tx: Transaction| {
            let id = tx.id(&chain_id);
            templates.push(Template { name, tx, id });
            id
        };
        let script = |code: Vec<u8>, data: Vec<u8>| {
            let mut b = TransactionBuilder::script(code, data);
            b.with_params(cp.clone()).script_gas_limit(GAS).max_fee_limit(MAX_FEE);
            b
        };
        let z = TxPointer::default();

        // 0 plain transfer A -> B
        let t0 = {
            let mut b = script(vec![], vec![]);
            b.add_unsigned_coin_input(ska, gid(0), COIN, base, z)
                .add_output(Output::coin(addr_b, 1000, base))
                .add_output(Output::change(addr_a, 0, base));
            b.finalize_as_transaction()
        };
        let t0_id = push("xfer", t0.clone());
        // 1 a different transaction spending the same coin (double spend)
        {
            let mut b = script(vec![], vec![]);
            b.add_unsigned_coin_input(ska, gid(0), COIN, base, z)
                .add_output(Output::coin(addr_b, 2000, base))
                .add_output(Output::change(addr_a, 0, base));
            push("dblspend", b.finalize_as_transaction());
        }
        // 2 spends output 0 of template 0 (dependency inside a block or across blocks)
        {
            let mut b = script(vec![], vec![]);
            b.add_unsigned_coin_input(skb, UtxoId::new(t0_id, 0), 1000, base, z)
                .add_unsigned_coin_input(skb, gid(2), COIN, base, z)
                .add_output(Output::coin(addr_a, 500, base))
                .add_output(Output::change(addr_b, 0, base));
            push("dep", b.finalize_as_transaction());
        }
        // 3 successful contract call forwarding 10 coins of asset X
        {
            let mut b = script(call_script(10), call_data(asset_x, c1, 0, addr_b));
            b.add_unsigned_coin_input(ska, gid(3), COIN, base, z)
                .add_unsigned_coin_input(ska, gid(50), 1000, asset_x, z)
                .add_input(contract_in(c1))
                .add_output(Output::contract(2, Bytes32::zeroed(), Bytes32::zeroed()))
                .add_output(Output::change(addr_a, 0, base))
                .add_output(Output::change(addr_a, 0, asset_x));
            push("call_ok", b.finalize_as_transaction());
        }
        // 4..8 calls of C1 with forwarded base coins: revert, panic, transfer out, message out, out of gas
        for (name, a, slot) in
            [("call_rvrt", 1u64, 4u8), ("call_panic", 2, 5), ("call_tro", 3, 6), ("call_smo", 4, 7), ("call_oog", 5, 8)]
        {
            let mut b = script(call_script(5), call_data(base, c1, a, addr_b));
            if a == 5 {
                b.script_gas_limit(30_000);
            }
            b.add_unsigned_coin_input(ska, gid(slot), COIN, base, z)
                .add_input(contract_in(c1))
                .add_output(Output::contract(1, Bytes32::zeroed(), Bytes32::zeroed()))
                .add_output(Output::variable(Address::zeroed(), 0, AssetId::zeroed()))
                .add_output(Output::change(addr_a, 0, base));
            push(name, b.finalize_as_transaction());
        }
        // 9 create contract C3
        {
            let mut b = TransactionBuilder::create(c3_code.clone().into(), c3_salt, vec![]);
            b.with_params(cp.clone()).max_fee_limit(MAX_FEE);
            b.add_unsigned_coin_input(ska, gid(9), COIN, base, z)
                .add_output(Output::contract_created(c3, c3_state_root))
                .add_output(Output::change(addr_a, 0, base));
            push("create", b.finalize_as_transaction());
        }
        // 10 call the created contract (exists only after template 9)
        {
            let mut b = script(call_script(0), call_data(base, c3, 0, addr_b));
            b.add_unsigned_coin_input(ska, gid(10), COIN, base, z)
                .add_input(contract_in(c3))
                .add_output(Output::contract(1, Bytes32::zeroed(), Bytes32::zeroed()))
                .add_output(Output::change(addr_a, 0, base));
            push("call_c3", b.finalize_as_transaction());
        }
        // 11 spend the genesis coin-message
        {
            let mut b = script(vec![], vec![]);
            b.add_unsigned_message_input(ska, sender, nonce(1), 5_000_000, vec![])
                .add_output(Output::change(addr_a, 0, base));
            push("msg_coin", b.finalize_as_transaction());
        }
        // 12 retryable data message, script reverts; 13 same message, script succeeds
        for (name, code, slot) in [("msgdata_rvrt", bytes(vec![op::rvrt(RegId::ONE)]), 12u8), ("msgdata_ok", vec![], 13)] {
            let mut b = script(code, vec![]);
            b.add_unsigned_message_input(ska, sender, nonce(2), 3000, vec![0xDA; 8])
                .add_unsigned_coin_input(ska, gid(slot), COIN, base, z)
                .add_output(Output::change(addr_a, 0, base));
            push(name, b.finalize_as_transaction());
        }
        // 14 predicate-owned coin
        {
            let mut b = script(vec![], vec![]);
            b.add_input(Input::coin_predicate(gid(51), pred_owner, COIN, base, z, 0, predicate.clone(), vec![]))
                .add_output(Output::change(addr_b, 0, base));
            let mut tx = b.finalize();
            tx.estimate_predicates(&(&cp).into(), MemoryInstance::new(), &EmptyStorage).expect("predicate estimation");
            push("pred", tx.into());
        }
        // 15 missing coin
        {
            let mut b = script(vec![], vec![]);
            b.add_unsigned_coin_input(ska, gid(200), COIN, base, z).add_output(Output::change(addr_a, 0, base));
            push("missing", b.finalize_as_transaction());
        }
        // 16 coin exists but with another amount
        {
            let mut b = script(vec![], vec![]);
            b.add_unsigned_coin_input(ska, gid(16), COIN - 1, base, z).add_output(Output::change(addr_a, 0, base));
            push("mismatch", b.finalize_as_transaction());
        }
        // 17 genesis message whose DA height is 2 (spendable only once the chain's DA height reached 2)
        {
            let mut b = script(vec![], vec![]);
            b.add_unsigned_message_input(ska, sender, nonce(3), 4_000_000, vec![]).add_output(Output::change(addr_a, 0, base));
            push("msg_early", b.finalize_as_transaction());
        }
        // 18 message that only the relayer delivers (DA height 1)
        {
            let mut b = script(vec![], vec![]);
            b.add_unsigned_message_input(ska, sender, nonce(11), 6_000_000, vec![]).add_output(Output::change(addr_a, 0, base));
            push("msg_relayed", b.finalize_as_transaction());
        }
        // 19 expires after block 1
        {
            let mut b = script(vec![], vec![]);
            b.expiration(BlockHeight::new(1));
            b.add_unsigned_coin_input(ska, gid(19), COIN, base, z).add_output(Output::change(addr_a, 0, base));
            push("expiring", b.finalize_as_transaction());
        }
        // 20 a mint handed in by the transaction source
        {
            let mint = Transaction::mint(
                TxPointer::new(BlockHeight::new(1), 0),
                fuel_core_types::fuel_tx::input::contract::Contract {
                    utxo_id: UtxoId::new(Bytes32::zeroed(), 0),
                    balance_root: Bytes32::zeroed(),
                    state_root: Bytes32::zeroed(),
                    tx_pointer: TxPointer::default(),
                    contract_id: ContractId::zeroed(),
                },
                fuel_core_types::fuel_tx::output::contract::Contract {
                    input_index: 0,
                    balance_root: Bytes32::zeroed(),
                    state_root: Bytes32::zeroed(),
                },
                0,
                base,
                0,
            );
            push("mint_src", mint.into());
        }
        // 21 blob
        {
            let data = vec![0xB1u8; 40];
            let id = BlobId::compute(&data);
            let mut b = TransactionBuilder::blob(BlobBody { id, witness_index: 0 });
            b.with_params(cp.clone()).max_fee_limit(MAX_FEE);
            b.add_witness(Witness::from(data));
            b.add_unsigned_coin_input(ska, gid(21), COIN, base, z).add_output(Output::change(addr_a, 0, base));
            push("blob", b.finalize_as_transaction());
        }
        // 22 transfer with a tip
        {
            let mut b = script(vec![], vec![]);
            b.tip(10);
            b.add_unsigned_coin_input(ska, gid(22), COIN, base, z).add_output(Output::change(addr_a, 0, base));
            push("tip", b.finalize_as_transaction());
        }
        // 23 two inputs, several outputs incl. a zero-amount coin output
        {
            let mut b = script(vec![], vec![]);
            b.add_unsigned_coin_input(ska, gid(23), COIN, base, z)
                .add_unsigned_coin_input(ska, gid(24), COIN, base, z)
                .add_output(Output::coin(addr_b, 0, base))
                .add_output(Output::coin(addr_b, 123, base))
                .add_output(Output::change(addr_a, 0, base));
            push("multi", b.finalize_as_transaction());
        }
        // 24 wrong signature (coin of A with a garbage witness)
        {
            let mut b = script(vec![], vec![]);
            b.add_input(Input::coin_signed(gid(25), addr_a, COIN, base, z, 0))
                .add_witness(Witness::from(vec![0u8; 64]))
                .add_output(Output::change(addr_a, 0, base));
            push("badsig", b.finalize_as_transaction());
        }
        // 25 valid transfer whose id is already in ProcessedTransactions at genesis (regenesis-preserved id)
        let preprocessed = {
            let mut b = script(vec![], vec![]);
            b.add_unsigned_coin_input(ska, gid(26), COIN, base, z).add_output(Output::change(addr_a, 0, base));
            push("preprocessed", b.finalize_as_transaction())
        };
        // 26 large script data so that the size limit matters
        {
            let mut b = script(vec![], vec![0x55; 700]);
            b.add_unsigned_coin_input(ska, gid(27), COIN, base, z).add_output(Output::change(addr_a, 0, base));
            push("big", b.finalize_as_transaction());
        }
        // 27 transfer of B (independent, always valid once)
        {
            let mut b = script(vec![], vec![]);
            b.add_unsigned_coin_input(skb, gid(31), COIN, base, z).add_output(Output::change(addr_b, 0, base));
            push("xfer_b", b.finalize_as_transaction());
        }

        // 29 below; 28 transfer without any output: everything is burned. With UTXO validation off only the
        // processed-id check stops it from being executed again.
        {
            let mut b = script(vec![], vec![]);
            b.add_unsigned_coin_input(ska, gid(28), COIN, base, z);
            push("noout", b.finalize_as_transaction());
        }

        // 29 script that spins until it runs out of gas (no contract involved)
        {
            let mut b = script(bytes(vec![op::noop(), op::jmpb(RegId::ZERO, 0)]), vec![]);
            b.script_gas_limit(30_000);
            b.add_unsigned_coin_input(ska, gid(29), COIN, base, z).add_output(Output::change(addr_a, 0, base));
            push("spin", b.finalize_as_transaction());
        }

        // 30 consensus-parameters upgrade by the privileged address A (version 0 -> 1; only the block gas limit moves by one)
        {
            use fuel_core_types::{fuel_crypto::Hasher, fuel_tx::UpgradePurpose};
            let mut next = cp.clone();
            next.set_block_gas_limit(cp.block_gas_limit().saturating_add(1));
            let serialized: Vec<u8> = {
                use fuel_core_storage::codec::{postcard::Postcard, Encode, Encoder};
                <Postcard as Encode<ConsensusParameters>>::encode(&next).as_bytes().into_owned()
            };
            let checksum = Hasher::hash(&serialized);
            let mut b = TransactionBuilder::upgrade(UpgradePurpose::ConsensusParameters { witness_index: 0, checksum });
            b.with_params(cp.clone()).max_fee_limit(MAX_FEE);
            b.add_witness(Witness::from(serialized));
            b.add_unsigned_coin_input(ska, gid(30), COIN, base, z).add_output(Output::change(addr_a, 0, base));
            push("upgrade_cp", b.finalize_as_transaction());
        }
        // 31, 32 upload of a two-part bytecode (part 1 is only valid after part 0)
        {
            use fuel_core_types::fuel_tx::{UploadBody, UploadSubsection};
            let bytecode = vec![0xABu8; 48];
            let parts = UploadSubsection::split_bytecode(&bytecode, 24).expect("split bytecode");
            for (name, part, slot) in [("upload0", &parts[0], 34u8), ("upload1", &parts[1], 35u8)] {
                let mut b = TransactionBuilder::upload(UploadBody {
                    root: part.root,
                    witness_index: 0,
                    subsection_index: part.subsection_index,
                    subsections_number: part.subsections_number,
                    proof_set: part.proof_set.clone(),
                });
                b.with_params(cp.clone()).max_fee_limit(MAX_FEE);
                b.add_witness(Witness::from(part.subsection.clone()));
                b.add_unsigned_coin_input(ska, gid(slot), COIN, base, z).add_output(Output::change(addr_a, 0, base));
                push(name, b.finalize_as_transaction());
            }
        }

        // 33, 34 predicate-owned message coin: funding a reverting script / spent by a succeeding one
        for (name, code) in [("predmsg_rvrt", bytes(vec![op::rvrt(RegId::ONE)])), ("predmsg_ok", vec![])] {
            let mut b = script(code, vec![]);
            b.add_input(Input::message_coin_predicate(sender, pred_owner, 5_000_000, nonce(5), 0, predicate.clone(), vec![]))
                .add_output(Output::change(addr_b, 0, base));
            let mut tx = b.finalize();
            tx.estimate_predicates(&(&cp).into(), MemoryInstance::new(), &EmptyStorage).expect("predicate estimation");
            push(name, tx.into());
        }
        // 35, 36 predicate-owned retryable data message with a reverting / succeeding script (fees from a coin of A)
        for (name, code, slot) in [("preddata_rvrt", bytes(vec![op::rvrt(RegId::ONE)]), 36u8), ("preddata_ok", vec![], 39u8)] {
            let mut b = script(code, vec![]);
            b.add_input(Input::message_data_predicate(sender, pred_owner, 3000, nonce(6), 0, vec![0xD6; 4], predicate.clone(), vec![]))
                .add_unsigned_coin_input(ska, gid(slot), COIN, base, z)
                .add_output(Output::change(addr_a, 0, base));
            let mut tx = b.finalize();
            tx.estimate_predicates(&(&cp).into(), MemoryInstance::new(), &EmptyStorage).expect("predicate estimation");
            push(name, tx.into());
        }
        // 37 reverting script without any output: with UTXO validation off nothing but the processed-id
        // record stops it from being executed again
        {
            let mut b = script(bytes(vec![op::rvrt(RegId::ONE)]), vec![]);
            b.add_unsigned_coin_input(ska, gid(37), COIN, base, z);
            push("rvrt_noout", b.finalize_as_transaction());
        }
        // 38 spends a message coin that does not exist (with UTXO validation off this is only noticed
        // after the VM ran, when the inputs are spent)
        {
            let mut b = script(vec![], vec![]);
            b.add_unsigned_message_input(ska, sender, nonce(99), 2_000_000, vec![]).add_output(Output::change(addr_a, 0, base));
            push("msg_missing", b.finalize_as_transaction());
        }
        // 39 consensus-parameters upgrade to a stricter version: at most one input per transaction
        {
            use fuel_core_types::{fuel_crypto::Hasher, fuel_tx::UpgradePurpose};
            let mut next = cp.clone();
            next.set_tx_params(cp.tx_params().with_max_inputs(1));
            let serialized: Vec<u8> = {
                use fuel_core_storage::codec::{postcard::Postcard, Encode, Encoder};
                <Postcard as Encode<ConsensusParameters>>::encode(&next).as_bytes().into_owned()
            };
            let checksum = Hasher::hash(&serialized);
            let mut b = TransactionBuilder::upgrade(UpgradePurpose::ConsensusParameters { witness_index: 0, checksum });
            b.with_params(cp.clone()).max_fee_limit(MAX_FEE);
            b.add_witness(Witness::from(serialized));
            b.add_unsigned_coin_input(ska, gid(38), COIN, base, z).add_output(Output::change(addr_a, 0, base));
            push("upgrade_strict", b.finalize_as_transaction());
        }

        // 40 creation of a contract with EMPTY bytecode (an empty stored value in ContractsRawCode)
        {
            let mut b = TransactionBuilder::create(Vec::<u8>::new().into(), c5_salt, vec![]);
            b.with_params(cp.clone()).max_fee_limit(MAX_FEE);
            b.add_unsigned_coin_input(ska, gid(40), COIN, base, z)
                .add_output(Output::contract_created(c5, c5_state_root))
                .add_output(Output::change(addr_a, 0, base));
            push("create_empty", b.finalize_as_transaction());
        }
        // 41 script that reads the code root and size of the empty contract (valid once it exists)
        {
            let code = bytes(vec![
                op::gtf_args(0x10, RegId::ZERO, GTFArgs::ScriptData),
                op::move_(0x11, RegId::SP),
                op::cfei(32),
                op::croo(0x11, 0x10),
                op::csiz(0x12, 0x10),
                op::log(0x12, RegId::ZERO, RegId::ZERO, RegId::ZERO),
                op::ret(RegId::ONE),
            ]);
            let mut b = script(code, c5.as_ref().to_vec());
            b.add_unsigned_coin_input(ska, gid(41), COIN, base, z)
                .add_input(contract_in(c5))
                .add_output(Output::contract(1, Bytes32::zeroed(), Bytes32::zeroed()))
                .add_output(Output::change(addr_a, 0, base));
            push("read_empty", b.finalize_as_transaction());
        }
        // 42, 43 two calls of C4: the first stores an empty slot value, the second reads it back
        for (name, slot) in [("slot_empty_a", 42u8), ("slot_empty_b", 43u8)] {
            let mut b = script(call_script(0), call_data(base, c4, 0, addr_b));
            b.add_unsigned_coin_input(ska, gid(slot), COIN, base, z)
                .add_input(contract_in(c4))
                .add_output(Output::contract(1, Bytes32::zeroed(), Bytes32::zeroed()))
                .add_output(Output::change(addr_a, 0, base));
            push(name, b.finalize_as_transaction());
        }

        // 44 a coin input FIRST, then a message whose DA height (2) may be above the block's DA height
        {
            let mut b = script(vec![], vec![]);
            b.add_unsigned_coin_input(ska, gid(44), COIN, base, z)
                .add_unsigned_message_input(ska, sender, nonce(7), 1_000_000, vec![])
                .add_output(Output::change(addr_a, 0, base));
            push("coin_then_early_msg", b.finalize_as_transaction());
        }
        // 45, 46 tips of 2^63: the fees of the two together overflow u64 (the second is skipped with
        // FeeOverflow after its VM run); the second one sends an outbox message
        {
            let mut b = script(vec![], vec![]);
            b.tip(BIG_TIP).max_fee_limit(BIG_TIP + MAX_FEE);
            b.add_unsigned_coin_input(ska, gid(45), BIG_COIN, base, z).add_output(Output::change(addr_a, 0, base));
            push("bigtip", b.finalize_as_transaction());
            let mut b = script(call_script(5), call_data(base, c1, 4, addr_b));
            b.tip(BIG_TIP).max_fee_limit(BIG_TIP + MAX_FEE);
            b.add_unsigned_coin_input(ska, gid(46), BIG_COIN, base, z)
                .add_input(contract_in(c1))
                .add_output(Output::contract(1, Bytes32::zeroed(), Bytes32::zeroed()))
                .add_output(Output::variable(Address::zeroed(), 0, AssetId::zeroed()))
                .add_output(Output::change(addr_a, 0, base));
            push("bigtip_smo", b.finalize_as_transaction());
        }

        // ---- forced transactions and relayer script ---------------------------
        let forced_ok = {
            let mut b = script(vec![], vec![]);
            b.max_fee_limit(0);
            b.add_unsigned_coin_input(ska, gid(32), COIN, base, z)
                .add_output(Output::coin(addr_b, 42, base))
                .add_output(Output::change(addr_a, 0, base));
            b.finalize_as_transaction()
        };
        let forced_rvrt = {
            let mut b = script(bytes(vec![op::rvrt(RegId::ONE)]), vec![]);
            b.max_fee_limit(0);
            b.add_unsigned_coin_input(ska, gid(33), COIN, base, z).add_output(Output::change(addr_a, 0, base));
            b.finalize_as_transaction()
        };
        let forced_missing = {
            let mut b = script(vec![], vec![]);
            b.max_fee_limit(0);
            b.add_unsigned_coin_input(ska, gid(201), COIN, base, z).add_output(Output::change(addr_a, 0, base));
            b.finalize_as_transaction()
        };
        let forced_spends_r4 = {
            let mut b = script(vec![], vec![]);
            b.max_fee_limit(0);
            b.add_unsigned_message_input(ska, sender, nonce(14), 999, vec![]).add_output(Output::change(addr_a, 0, base));
            b.finalize_as_transaction()
        };
        let ftx = |n: u8, tx_bytes: Vec<u8>, max_gas: u64, da: u64| -> Event {
            Event::Transaction(RelayedTransaction::V1(RelayedTransactionV1 {
                nonce: nonce(100 + n),
                max_gas,
                serialized_transaction: tx_bytes,
                da_height: DaBlockHeight(da),
            }))
        };
        let big = 10_000_000u64;
        let mint_bytes = templates[20].tx.to_bytes();
        let mut relayer: BTreeMap<u64, Vec<Event>> = BTreeMap::new();
        match relayer_script {
            0 => {}
            1 => {
                relayer.insert(1, vec![Event::Message(r1.clone()), ftx(1, forced_ok.to_bytes(), big, 1)]);
                relayer.insert(2, vec![ftx(2, vec![0xFF, 0x00, 0x13], big, 2), Event::Message(r2.clone()), ftx(3, t0.to_bytes(), big, 2)]);
                relayer.insert(3, vec![ftx(4, forced_rvrt.to_bytes(), 1, 3), ftx(5, mint_bytes.clone(), big, 3), Event::Message(r3.clone())]);
            }
            2 => {
                // message and the forced transaction spending it in the same DA block; gaps at height 2
                relayer.insert(1, vec![ftx(6, forced_missing.to_bytes(), big, 1), ftx(7, forced_rvrt.to_bytes(), big, 1)]);
                relayer.insert(3, vec![Event::Message(r4.clone().tap_da(3)), ftx(8, forced_spends_r4_for(3, &forced_spends_r4), big, 3), Event::Message(r1.clone().tap_da(3))]);
            }
            _ => {
                // a forced transaction repeated on two DA heights and one spending a message delivered earlier
                relayer.insert(1, vec![ftx(9, forced_ok.to_bytes(), big, 1), Event::Message(r4.clone().tap_da(1))]);
                relayer.insert(2, vec![ftx(10, forced_ok.to_bytes(), big, 2), ftx(11, forced_spends_r4.to_bytes(), big, 2)]);
                relayer.insert(3, vec![Event::Message(r1.clone().tap_da(3)), Event::Message(r3.clone())]);
            }
        }

        // ---- genesis database -----------------------------------------------------
        let mut db = ChainDb::default();
        {
            let mut tx = db.write_transaction();
            tx.storage_as_mut::<ConsensusParametersVersions>().insert(&0, &cp).unwrap();
            for (id, c) in &genesis_coins {
                tx.storage_as_mut::<Coins>().insert(id, c).unwrap();
            }
            for m in &genesis_msgs {
                tx.storage_as_mut::<Messages>().insert(m.nonce(), m).unwrap();
            }
            for (cid, code, bal_base, bal_x, n) in [(c1, &c1_code, 1000u64, 50u64, 0xC1u8), (c2, &c2_code, 0, 0, 0xC2), (c4, &c4_code, 0, 0, 0xC4)] {
                tx.storage_as_mut::<ContractsRawCode>().insert(&cid, code.as_slice()).unwrap();
                let utxo = UtxoId::new(Bytes32::from([n; 32]), 0);
                tx.storage_as_mut::<ContractsLatestUtxo>()
                    .insert(&cid, &ContractUtxoInfo::V1((utxo, TxPointer::default()).into()))
                    .unwrap();
                if bal_base > 0 {
                    tx.storage_as_mut::<ContractsAssets>().insert(&ContractsAssetKey::new(&cid, &base), &bal_base).unwrap();
                }
                if bal_x > 0 {
                    tx.storage_as_mut::<ContractsAssets>().insert(&ContractsAssetKey::new(&cid, &asset_x), &bal_x).unwrap();
                }
            }
            tx.storage_as_mut::<ProcessedTransactions>().insert(&preprocessed, &()).unwrap();
            tx.storage_as_mut::<StateTransitionBytecodeVersions>().insert(&STF_VERSION, &Bytes32::from([0x57u8; 32])).unwrap();
            let header = PartialBlockHeader {
                application: ApplicationHeader {
                    da_height: DaBlockHeight(0),
                    consensus_parameters_version: 0,
                    state_transition_bytecode_version: STF_VERSION,
                    generated: Default::default(),
                },
                consensus: ConsensusHeader {
                    prev_root: Bytes32::zeroed(),
                    height: BlockHeight::new(0),
                    time: Tai64(TIME0),
                    generated: Default::default(),
                },
            };
            let block = PartialFuelBlock::new(header, vec![]).generate(&[], Bytes32::zeroed()).expect("genesis block");
            tx.storage_as_mut::<FuelBlocks>().insert(&BlockHeight::new(0), &block.compress(&chain_id)).unwrap();
            tx.storage_as_mut::<SealedBlockConsensus>()
                .insert(&BlockHeight::new(0), &Consensus::Genesis(Genesis::default()))
                .unwrap();
            tx.commit().expect("genesis commit");
        }
        let genesis = db.dump();
        assert_eq!(db.snaps().len(), 1, "genesis commit sets height 0");

        Universe {
            variant,
            relayer_script,
            cp,
            chain_id,
            addr_a,
            addr_b,
            c1,
            c2,
            asset_x,
            genesis,
            genesis_coins,
            genesis_msgs,
            genesis_processed: vec![preprocessed],
            templates,
            relayer,
            bulk,
        }
    }

    pub fn tid(&self, name: &str) -> u8 {
        self.templates.iter().position(|t| t.name == name).unwrap_or_else(|| panic!("no template {name}")) as u8
    }
}

trait TapDa {
    fn tap_da(self, da: u64) -> Self;
}
impl TapDa for Message {
    fn tap_da(mut self, da: u64) -> Self {
        self.set_da_height(DaBlockHeight(da));
        self
    }
}

fn forced_spends_r4_for(_da: u64, tx: &Transaction) -> Vec<u8> {
    tx.to_bytes()
}
