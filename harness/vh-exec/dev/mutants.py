#!/usr/bin/env python3
"""Development aid (BUILDER_GUIDE section 6): apply named property-breaking edits to the
scratch worktree /tmp/wt-vh-exec (never to /repo).

usage: mutants.py apply <name> [<name> ...] | reset | list
"""
import subprocess, sys

WT = "/tmp/wt-vh-exec"
EX = "crates/services/executor/src/executor.rs"
UP = "crates/services/upgradable-executor/src/executor.rs"



def DRY(cond):
    return [
        ("""        record_storage_reads: bool,
    ) -> ExecutorResult<DryRunResult> {
        if at_height.is_some()""", """        record_storage_reads: bool,
    ) -> ExecutorResult<DryRunResult>
    where
        S: Modifiable + Clone,
    {
        if at_height.is_some()"""),
        ("""        let ProducedBlock {
            result:
                ExecutionResult {
                    block,
                    skipped_transactions,
                    tx_status,
                    ..
                },
            storage_reads,
        } = self
            .produce_inner_sync(""", """        let (
            ProducedBlock {
                result:
                    ExecutionResult {
                        block,
                        skipped_transactions,
                        tx_status,
                        ..
                    },
                storage_reads,
            },
            changes,
        ): (ProducedBlock, Changes) = self
            .produce_inner_sync("""),
        ("""            )?
            .into_result();

        // If any of the transactions fails, return an error.""", """            )?
            .into();
        if %s {
            let _ = self.storage_view_provider.clone().commit_changes(changes);
        }

        // If any of the transactions fails, return an error.""" % cond),
    ]


M = {
    # ---- C01 / C03
    "mint_amount_unconditional": (EX, """        let amount_to_mint = if coinbase_contract_id != ContractId::zeroed() {
            data.coinbase
        } else {
            0
        };""", """        let amount_to_mint = data.coinbase;"""),
    "validate_reexecutes_l1": (EX, "for transaction in transactions.iter().skip(processed_l1_tx_count) {",
                               "for transaction in transactions.iter().skip(processed_l1_tx_count.saturating_sub(1)) {"),
    "checked_expiry_dropped": (EX, "                if block_height > expiration {", "                if block_height > expiration && actual_version != checked_version {"),
    "input_used_gas_only_on_revert": (EX, "        Self::update_input_used_gas(predicate_gas_used, tx_id, &mut tx)?;", "        if reverted {\n            Self::update_input_used_gas(predicate_gas_used, tx_id, &mut tx)?;\n        }"),
    # ---- C02
    "coin_get_instead_of_take": (EX, """                        .storage::<Coins>()
                        .take(utxo_id)
                        .map_err(Into::into)""", """                        .storage::<Coins>()
                        .get(utxo_id)
                        .map(|o| o.map(Cow::into_owned))
                        .map_err(Into::into)"""),
    "zero_coin_inserted": (EX, "        if *amount > Word::MIN {", "        if *amount != Word::MAX {"),
    # ---- C04
    "commit_on_revert": (EX, """        if !reverted {
            storage_tx.commit_changes(changes)?;
        } else {
            state_after = Default::default();
        }""", """        storage_tx.commit_changes(changes)?;
        if reverted {
            state_after = Default::default();
        }"""),
    "retryable_consumed_on_revert": (EX, """                Input::MessageDataSigned(_) | Input::MessageDataPredicate(_)
                    if reverted =>""", """                Input::MessageDataSigned(_) | Input::MessageDataPredicate(_)
                    if reverted && inputs.is_empty() =>"""),
    "gas_overflow_not_reported": (EX, """                if tx_max_gas > remaining_gas_limit {
                    data.skipped_transactions.push((""", """                if tx_max_gas > remaining_gas_limit {
                    let mut unreported = Vec::new();
                    unreported.push(("""),
    # ---- C05
    "da_range_exclusive": (EX, "for da_height in next_unprocessed_da_height..=da_block_height.0 {",
                           "for da_height in next_unprocessed_da_height..da_block_height.0 {"),
    "inbox_root_messages_only": (EX, """                root_calculator.push(event.hash().as_ref());
                match event {
                    Event::Message(message) => {""", """                match event {
                    Event::Message(message) => {
                        root_calculator.push(message.message_id().as_ref());"""),
    # ---- C06
    "no_duplicate_check": (EX, """        if storage_tx
            .storage::<ProcessedTransactions>()
            .contains_key(tx_id)?
        {
            return Err(ExecutorError::TransactionIdCollision(*tx_id))""", """        if storage_tx
            .storage::<ProcessedTransactions>()
            .contains_key(tx_id)?
            && tx_id == &TxId::zeroed()
        {
            return Err(ExecutorError::TransactionIdCollision(*tx_id))"""),
    "processed_id_not_recorded": (EX, """        storage_tx
            .storage::<ProcessedTransactions>()
            .insert(&tx_id, &())?;

        self.update_execution_data(""", """        self.update_execution_data("""),
    # ---- C03
    "mint_amount_check_lt": (EX, "        if *mint.mint_amount() != expected_amount {", "        if *mint.mint_amount() < expected_amount {"),
    "mint_index_check_lt": (EX, "if checked_mint.transaction().tx_pointer().tx_index() != execution_data.tx_count {",
                            "if checked_mint.transaction().tx_pointer().tx_index() < execution_data.tx_count {"),
    "remaining_gas_not_updated": (EX, """                statuses = self.preconfirmation_sender.try_send(statuses);
                remaining_gas_limit = block_gas_limit.saturating_sub(data.used_gas);""", """                statuses = self.preconfirmation_sender.try_send(statuses);
                remaining_gas_limit = block_gas_limit.saturating_sub(data.used_gas.min(1));"""),
    # ---- C07 (only one side of the native/WASM pair changes)
    "wasm_production_runs_as_dry_run": ("crates/services/upgradable-executor/wasm-executor/src/main.rs", """        .produce_without_commit(block, false, NewTxWaiter, PreconfirmationSender)""", """        .produce_without_commit(block, true, NewTxWaiter, PreconfirmationSender)"""),
    "host_storage_get_truncates": ("crates/services/upgradable-executor/src/instance.rs", """                    caller
                        .write(out_ptr, &value)
                        .map_err(wasmtime::Error::from_anyhow)?;
                    Ok(0)""", """                    caller
                        .write(out_ptr, &value[..value.len().saturating_sub(1)])
                        .map_err(wasmtime::Error::from_anyhow)?;
                    Ok(0)"""),
    "wasm_result_conversion_drops_events": ("crates/services/upgradable-executor/wasm-executor/src/utils.rs", """            let skipped_transactions: Vec<_> = skipped_transactions
                .into_iter()
                .map(|(id, error)| (id, ExecutorError::from(error)))
                .collect();

            let result = ExecutionResult {
                block,
                skipped_transactions,
                tx_status,
                events,
            };

            Uncommitted::new(result, changes)
        })
        .map_err(ExecutorError::from)
}

/// Converts the `ExecutionV0` to latest execution result.""", """            let skipped_transactions: Vec<_> = skipped_transactions
                .into_iter()
                .map(|(id, error)| (id, ExecutorError::from(error)))
                .collect();

            let result = ExecutionResult {
                block,
                skipped_transactions,
                tx_status,
                events: events.into_iter().skip(1).collect(),
            };

            Uncommitted::new(result, changes)
        })
        .map_err(ExecutorError::from)
}

/// Converts the `ExecutionV0` to latest execution result."""),
    # ---- C45
    "dry_run_commits": (UP, DRY("true")),
    "dry_run_commits_when_recording": (UP, DRY("record_storage_reads")),
}


def sh(*a):
    return subprocess.run(a, check=True, capture_output=True, text=True).stdout


def apply(name):
    spec = M[name]
    f = spec[0]
    pairs = spec[1] if isinstance(spec[1], list) else [(spec[1], spec[2])]
    p = f"{WT}/{f}"
    s = open(p).read()
    for old, new in pairs:
        if s.count(old) != 1:
            sys.exit(f"mutant {name}: anchor text found {s.count(old)} times in {f}: {old[:60]!r}")
        s = s.replace(old, new)
    open(p, "w").write(s)
    print(f"applied {name} to {f}")


if __name__ == "__main__":
    cmd = sys.argv[1]
    if cmd == "list":
        print("\n".join(M))
    elif cmd == "reset":
        print(sh("git", "-C", WT, "checkout", "--", "crates"))
        print(sh("git", "-C", WT, "status", "--short"))
    elif cmd == "apply":
        for n in sys.argv[2:]:
            apply(n)
