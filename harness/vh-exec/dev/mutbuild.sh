#!/bin/bash
# Development aid: build vh-exec against the scratch worktree /tmp/wt-vh-exec (mutant runs, BUILDER_GUIDE section 6).
# usage: mutbuild.sh   -> binary at /verif/harness/target-vh-exec-mut/release/vh-exec
set -e
WT=${WT:-/tmp/wt-vh-exec}
PATHS=$(python3 - "$WT" <<'PY'
import os,sys,json
ov=sys.argv[1]; paths=[]
for base,dirs,files in os.walk(ov):
    dirs[:]=[d for d in dirs if d not in ("target",".git","version-compatibility")]
    if "Cargo.toml" in files and "[package]" in open(os.path.join(base,"Cargo.toml")).read():
        paths.append(base)
print("paths="+json.dumps(sorted(paths)))
PY
)
cd ${WS:-/verif/harness}
export CARGO_TARGET_DIR=${TARGET:-/verif/harness/target-vh-exec-mut} CARGO_NET_OFFLINE=true CARGO_BUILD_JOBS=${CARGO_BUILD_JOBS:-8}
cargo build --release --offline -p ${CRATE:-vh-exec} --config "$PATHS" 2>&1 | grep -v "^\s*Compiling\|^warning: path override\|^$\|This is currently allowed\|dependency graph\|removed in the future\|see <https\|override\b" | tail -${TAIL:-15}
