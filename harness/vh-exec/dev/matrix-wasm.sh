#!/bin/bash
# Development aid: C07 against mutants. Cargo's `paths` override cannot be used for the WASM package
# (fuel-core-wasm-executor depends on two versions of fuel-core-types), so a scratch copy of the
# vh-exec-wasm manifest with its path dependencies pointed at the scratch worktree is built instead.
D=/verif/harness/vh-exec/dev
R=/tmp/vh-exec-mut-root
for m in "$@"; do
  python3 $D/mutants.py reset >/dev/null
  [ "$m" = none ] || python3 $D/mutants.py apply $m >/dev/null
  (cd /tmp/vh-exec-wasm-mut && CARGO_TARGET_DIR=/verif/harness/target-vh-exec-wasm-mut CARGO_NET_OFFLINE=true CARGO_BUILD_JOBS=8 VERIF_REPO=/tmp/wt-vh-exec cargo build --release --offline -p vh-exec-wasm > $R/buildw-$m.log 2>&1) || { echo "MUTANT $m: BUILD FAILED" >> $R/matrix-wasm.log; continue; }
  rm -rf $R/replays
  out=$(cd $R && VERIF_ROOT=$R /verif/harness/target-vh-exec-wasm-mut/release/vh-exec-wasm C07 2>&1); rc=$?
  sigs=$(echo "$out" | grep "violation \[" | sed -E 's/^ *violation \[[^]]*\] ([^ ]*): .*/\1/' | sort -u | tr '\n' ' ')
  mf=$(echo "$out" | grep -m1 MACHINERY | cut -c1-120)
  echo "MUTANT $m C07 exit=$rc sigs: $sigs $mf" >> $R/matrix-wasm.log
done
python3 $D/mutants.py reset >/dev/null
echo "DONE $*" >> $R/matrix-wasm.log
