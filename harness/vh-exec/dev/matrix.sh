#!/bin/bash
# Development aid: run the quick checks against each mutant (scratch worktree only).
# usage: matrix.sh <mutant> [<mutant> ...]   -> appends to /tmp/vh-exec-mut-root/matrix.log
D=/verif/harness/vh-exec/dev
R=/tmp/vh-exec-mut-root
mkdir -p $R
for m in "$@"; do
  python3 $D/mutants.py reset >/dev/null
  python3 $D/mutants.py apply $m >/dev/null || { echo "MUTANT $m: apply failed" >> $R/matrix.log; continue; }
  if ! TAIL=30 $D/mutbuild.sh > $R/build-$m.log 2>&1 || grep -q "^error" $R/build-$m.log; then
    echo "MUTANT $m: BUILD FAILED (see $R/build-$m.log)" >> $R/matrix.log; continue
  fi
  for p in ${PROPS:-C01 C02 C03 C04 C05 C06 C45}; do
    rm -rf $R/replays
    out=$(cd $R && VERIF_ROOT=$R /verif/harness/target-vh-exec-mut/release/vh-exec $p 2>&1); rc=$?
    sigs=$(echo "$out" | grep "violation \[" | sed -E 's/^ *violation \[[^]]*\] ([^ ]*): .*/\1/' | sort -u | tr '\n' ' ')
    mf=$(echo "$out" | grep -m1 MACHINERY | cut -c1-120)
    echo "MUTANT $m $p exit=$rc sigs: $sigs $mf" >> $R/matrix.log
  done
done
python3 $D/mutants.py reset >/dev/null
echo "DONE $*" >> $R/matrix.log
