#!/usr/bin/env python3
"""Apply named property-breaking edits (mutants) to a SCRATCH worktree of /repo.

usage: mutants.py <worktree> <mutant> [<mutant> ...]     (never point it at /repo)

Each mutant is (file, old, new); `old` must occur exactly once.
"""
import sys

F = "crates/fuel-core/src/"
MUTANTS = {
    # ---- C38 ------------------------------------------------------------
    "c38-no-plus-one": (F + "schema.rs", "let mut count = count.saturating_add(1) /* for `has_next_page` */;", "let mut count = count;"),
    "c38-take-inclusive": (F + "schema.rs", "                    has_next_page |= count == 0;\n                    count != 0", "                    has_next_page |= count == 0;\n                    true"),
    "c38-start-not-skipped": (F + "schema.rs", "                            has_previous_page = true;\n                            return true", "                            has_previous_page = true;\n                            return false"),
    "c38-prev-flag-never-set": (F + "schema.rs", "                            has_previous_page = true;\n", "                            has_previous_page = false;\n"),
    # ---- C37 ------------------------------------------------------------
    "c37-skip-big-saturating": (F + "coins_query.rs", "        current_dust_coins_value\n            .checked_sub(item_amount)\n", "        Some(current_dust_coins_value.saturating_sub(item_amount))\n"),
    "c37-exclusion-ignores-messages": (F + "coins_query.rs", "CoinsToSpendIndexKey::Message { nonce, .. } => exclude.contains_message(nonce),", "CoinsToSpendIndexKey::Message { nonce, .. } => exclude.contains_message(nonce) && false,"),
    "c37-dust-does-not-stop": (F + "coins_query.rs", "        coin == last_big_coin\n", "        coin == last_big_coin && false\n"),
    "c37-largest-first-off-by-one": (F + "coins_query.rs", "        if coins.len() >= max as usize {\n            if allow_partial {", "        if coins.len() > max as usize {\n            if allow_partial {"),
    "c37-truncate-off-by-one": (F + "coins_query.rs", "        inputs.truncate(max as usize);\n", "        inputs.truncate((max as usize).saturating_add(1));\n"),
    "c37-insufficient-when-short-of-double": (F + "coins_query.rs", "        || (selected_big_coins_total < total && !allow_partial)", "        || (selected_big_coins_total < adjusted_total && !allow_partial)"),
    # ---- C36 ------------------------------------------------------------
    "c36-retryable-swapped-on-import": (
        F + "graphql_api/indexation/balances.rs",
        "    if message.is_retryable_message() {\n        retryable = retryable.saturating_add(u128::from(message.amount()));",
        "    if !message.is_retryable_message() {\n        retryable = retryable.saturating_add(u128::from(message.amount()));",
    ),
    "c36-coin-decrease-wrong-operand": (F + "graphql_api/indexation/balances.rs", "        .checked_sub(u128::from(coin.amount))\n        .ok_or_else(|| IndexationError::CoinBalanceWouldUnderflow {", "        .checked_sub(1)\n        .ok_or_else(|| IndexationError::CoinBalanceWouldUnderflow {"),
    "c36-index-not-removed-on-consume": (F + "graphql_api/indexation/coins_to_spend.rs", "    let key = CoinsToSpendIndexKey::from_coin(coin);\n    let storage = block_st_transaction.storage::<CoinsToSpendIndex>();\n    let maybe_old_value = storage.take(&key)?;", "    let key = CoinsToSpendIndexKey::from_coin(coin);\n    let storage = block_st_transaction.storage::<CoinsToSpendIndex>();\n    let maybe_old_value = storage.get(&key)?.map(|v| v.into_owned());"),
    "c36-owned-message-not-removed": (F + "graphql_api/worker_service.rs", "                block_st_transaction\n                    .storage_as_mut::<OwnedMessageIds>()\n                    .remove(&OwnedMessageKey::new(\n                        message.recipient(),\n                        message.nonce(),\n                    ))?;\n", ""),
    "c36-coin-increase-overwrites": (F + "graphql_api/indexation/balances.rs", "    let new_amount = current_amount.saturating_add(u128::from(coin.amount));", "    let new_amount = current_amount.max(u128::from(coin.amount));"),
}


def main():
    if len(sys.argv) < 3:
        print(__doc__)
        print("mutants:", ", ".join(sorted(MUTANTS)))
        sys.exit(2)
    wt = sys.argv[1].rstrip("/")
    if wt == "/repo":
        sys.exit("refusing to mutate /repo")
    for name in sys.argv[2:]:
        f, old, new = MUTANTS[name]
        p = wt + "/" + f
        s = open(p).read()
        if s.count(old) != 1:
            sys.exit(f"{name}: pattern occurs {s.count(old)} times in {p}")
        open(p, "w").write(s.replace(old, new))
        print(f"applied {name} to {p}")


if __name__ == "__main__":
    main()
