#!/bin/bash
# usage: run_mutants.sh <label> <mutant>...   — applies the mutants to a scratch worktree, runs the three quick checks, restores the worktree
set -u
WT=/tmp/wt-vh-graphql
cd /verif
git -C $WT checkout -q -- crates/fuel-core/src
python3 harness/vh-graphql/mutants.py $WT "${@:2}" || exit 2
export VERIF_TARGET_DIR=/verif/harness/target-vh-graphql-mut CARGO_BUILD_JOBS=6 VERIF_REPO_OVERRIDE=$WT
for id in C38 C37 C36; do
  echo "=== $1 $id"; ./check $id --tier quick 2>&1 | grep -E "violation \[|^OK|MACHINERY|^error" | cut -c1-420; echo "exit=${PIPESTATUS[0]}"
done
git -C $WT checkout -q -- crates/fuel-core/src
