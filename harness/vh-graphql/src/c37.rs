//! C37 — coins-to-spend answers are sound.
//!
//! Real code: `ReadView::coins_to_spend` (where the GraphQL query is
//! assembled) over real in-memory on-chain / off-chain databases:
//!  * indexed path  : `coins_to_spend_with_cache` -> `select_coins_to_spend`
//!    over the real `CoinsToSpendIndex` iterators (`big_coins`, `dust_coins`,
//!    `skip_big_coins_up_to_amount`, `max_dust_count`);
//!  * non-indexed   : `coins_to_spend_without_cache` -> `random_improve` ->
//!    `largest_first` over `AssetQuery`.
//! The off-chain database is populated by the real `process_executor_events`.
//! The two random draws (dust count, shuffle) are owned through the add-only
//! `coins_query::verif_hooks` choice seams and enumerated exhaustively.
use crate::common::*;
use fuel_core::{
    coins_query::{verif_hooks as seams, CoinsQueryError},
    database::{
        database_description::{off_chain::OffChain, on_chain::OnChain, DatabaseDescription, DatabaseMetadata, IndexationKind},
        metadata::MetadataTable,
        Database,
    },
    fuel_core_graphql_api::database::{ReadDatabase, ReadView},
    query::asset_query::Exclude,
    schema::{
        coins::SpendQueryElementInput,
        scalars::{U128, U16},
    },
};
use fuel_core_storage::{
    tables::{Coins, Messages},
    StorageMutate,
};
use fuel_core_types::{
    entities::coins::{CoinId, CoinType},
    fuel_tx::{AssetId, ConsensusParameters},
    fuel_types::BlockHeight,
    services::executor::Event,
};
use mcx::*;
use serde::{Deserialize, Serialize};
use serde_json::json;
use std::{
    cell::RefCell,
    collections::{BTreeMap, BTreeSet},
    rc::Rc,
};

pub const AMOUNTS: [u64; 5] = [1, 2, 3, 10, u64::MAX];
pub const TARGETS: [u128; 5] = [0, 1, 4, 11, u64::MAX as u128 + 1];
pub const MAXES: [u16; 4] = [0, 1, 2, 255];

#[derive(Clone, Debug, Serialize, Deserialize, PartialEq, Eq, Hash)]
pub struct Setup {
    /// resources of the owner: (is_message, amount index); coins carry the queried asset
    pub resources: Vec<(bool, u8)>,
    /// queried asset: false = base asset (message coins count), true = asset X
    pub asset_x: bool,
    /// identifiers ascending (false) or descending (true) along `resources`
    pub ids_descending: bool,
    /// `batch_size` of the read view
    pub batch_size: usize,
}

#[derive(Clone, Debug, Serialize, Deserialize, PartialEq, Eq, Hash)]
pub struct Query {
    pub indexed: bool,
    #[serde(with = "u128_str")]
    pub target: u128,
    pub max: u16,
    pub partial: bool,
    /// bit i set = resource i is excluded
    pub excluded: u32,
    /// scripted answers of the choice seams, in call order
    pub choices: Vec<u64>,
}

mod u128_str {
    use serde::{Deserialize, Deserializer, Serializer};
    pub fn serialize<S: Serializer>(v: &u128, s: S) -> Result<S::Ok, S::Error> {
        s.serialize_str(&v.to_string())
    }
    pub fn deserialize<'de, D: Deserializer<'de>>(d: D) -> Result<u128, D::Error> {
        String::deserialize(d)?.parse().map_err(serde::de::Error::custom)
    }
}

#[derive(Clone, Debug, Serialize, Deserialize)]
pub struct Case {
    pub setup: Setup,
    pub query: Query,
}

struct Res {
    id: CoinId,
    amount: u64,
}

pub struct Built {
    owner_resources: Vec<Res>,
    /// every identifier that exists somewhere but must never be returned -> why
    foreign: BTreeMap<CoinId, &'static str>,
    asset: AssetId,
    indexed: ReadView,
    plain: ReadView,
}

fn res_id(setup: &Setup, i: usize) -> u32 {
    let n = setup.resources.len();
    if setup.ids_descending {
        (n - i) as u32
    } else {
        (i + 1) as u32
    }
}

fn put_coin(on: &mut Database<OnChain>, c: &fuel_core_types::entities::coins::coin::Coin) {
    StorageMutate::<Coins>::insert(on, &c.utxo_id, &c.compress()).expect("on-chain coin");
}

fn put_message(on: &mut Database<OnChain>, m: &fuel_core_types::entities::relayer::message::Message) {
    StorageMutate::<Messages>::insert(on, m.nonce(), m).expect("on-chain message");
}

pub fn build(setup: &Setup) -> Built {
    let mut on = Database::<OnChain>::in_memory();
    let owner = addr(OWNER_A);
    let asset = if setup.asset_x { asset_x() } else { base_asset() };
    let other_asset = if setup.asset_x { base_asset() } else { asset_x() };
    let mut block1: Vec<Event> = vec![];
    let mut owner_resources = vec![];
    let mut foreign: BTreeMap<CoinId, &'static str> = BTreeMap::new();
    for (i, (is_msg, m)) in setup.resources.iter().enumerate() {
        let id = res_id(setup, i);
        let amount = AMOUNTS[*m as usize];
        if *is_msg {
            let msg = message(id, owner, amount, false);
            put_message(&mut on, &msg);
            block1.push(Event::MessageImported(msg));
            if setup.asset_x {
                foreign.insert(CoinId::Message(nonce(id)), "message-for-non-base-asset");
            } else {
                owner_resources.push(Res { id: CoinId::Message(nonce(id)), amount });
            }
        } else {
            let c = coin(id, owner, asset, amount);
            put_coin(&mut on, &c);
            block1.push(Event::CoinCreated(c));
            owner_resources.push(Res { id: CoinId::Utxo(utxo(id)), amount });
        }
    }
    // distractors: other owner, other asset, a message with data, a spent coin, a spent message
    let c_other_owner = coin(100, addr(OWNER_B), asset, 10);
    put_coin(&mut on, &c_other_owner);
    block1.push(Event::CoinCreated(c_other_owner));
    foreign.insert(CoinId::Utxo(utxo(100)), "other-owner");
    let c_other_asset = coin(101, owner, other_asset, 10);
    put_coin(&mut on, &c_other_asset);
    block1.push(Event::CoinCreated(c_other_asset));
    foreign.insert(CoinId::Utxo(utxo(101)), "other-asset");
    let m_retry = message(102, owner, 10, true);
    put_message(&mut on, &m_retry);
    block1.push(Event::MessageImported(m_retry));
    foreign.insert(CoinId::Message(nonce(102)), "message-with-data");
    let c_spent = coin(103, owner, asset, 10);
    block1.push(Event::CoinCreated(c_spent));
    foreign.insert(CoinId::Utxo(utxo(103)), "spent-coin");
    let m_spent = message(104, owner, 10, false);
    block1.push(Event::MessageImported(m_spent.clone()));
    foreign.insert(CoinId::Message(nonce(104)), "spent-message");
    let m_other_owner = message(105, addr(OWNER_B), 10, false);
    put_message(&mut on, &m_other_owner);
    block1.push(Event::MessageImported(m_other_owner));
    foreign.insert(CoinId::Message(nonce(105)), "other-owner");
    let block2 = [Event::CoinConsumed(c_spent), Event::MessageConsumed(m_spent)];

    // a node with all indexations, and a node whose off-chain database has no
    // coins-to-spend indexation (both fed by the real off-chain worker code)
    let mut views = vec![];
    for with_index in [true, false] {
        let mut off = OffDb::new();
        if !with_index {
            let meta = DatabaseMetadata::V2 { version: OffChain::version(), height: BlockHeight::from(0u32), indexation_availability: [IndexationKind::Balances].into_iter().collect() };
            StorageMutate::<MetadataTable<OffChain>>::insert(&mut off.db, &(), &meta).expect("metadata write");
        }
        off.apply_block(&block1, 1).expect("block 1");
        off.apply_block(&block2, 2).expect("block 2");
        views.push(ReadDatabase::new(setup.batch_size, BlockHeight::from(0u32), on.clone(), off.db.clone()).expect("read database").test_view());
    }
    let plain = views.pop().unwrap();
    let indexed = views.pop().unwrap();
    Built { owner_resources, foreign, asset, indexed, plain }
}

thread_local! {
    static RT: tokio::runtime::Runtime = tokio::runtime::Builder::new_current_thread().build().expect("tokio runtime");
}

#[derive(Default)]
struct Script {
    prefix: Vec<u64>,
    /// (site, alternatives, chosen)
    log: Vec<(&'static str, u64, u64)>,
}

pub type Answer = Result<Vec<Vec<CoinType>>, CoinsQueryError>;

/// One call of the real code with scripted choices. Returns the answer and the choice log.
fn run_query(b: &Built, q: &Query, exclude: &Exclude) -> (Answer, Vec<(&'static str, u64, u64)>) {
    let script = Rc::new(RefCell::new(Script { prefix: q.choices.clone(), log: vec![] }));
    let s2 = script.clone();
    seams::install(Some(Box::new(move |site, n| {
        let mut s = s2.borrow_mut();
        let i = s.log.len();
        let c = s.prefix.get(i).copied().unwrap_or(0);
        let c = if c < n { c } else { n - 1 };
        s.log.push((site, n, c));
        c
    })));
    let view = if q.indexed { &b.indexed } else { &b.plain };
    let input = [SpendQueryElementInput { asset_id: b.asset.into(), amount: U128(q.target), max: Some(U16(q.max)), allow_partial: Some(q.partial) }];
    let params = ConsensusParameters::default();
    let max_inputs = params.tx_params().max_inputs();
    let r = RT.with(|rt| rt.block_on(view.coins_to_spend(addr(OWNER_A), &input, exclude, &params, max_inputs)));
    seams::install(None);
    let r = r.map(|per_asset| per_asset.into_iter().map(|coins| coins.iter().map(|c| c.verif_model()).collect()).collect());
    let log = script.borrow().log.clone();
    (r, log)
}

fn exclude_of(b: &Built, mask: u32, setup: &Setup) -> (Exclude, BTreeSet<CoinId>) {
    let mut ids = vec![];
    for (i, (is_msg, _)) in setup.resources.iter().enumerate() {
        if mask & (1 << i) != 0 {
            let id = res_id(setup, i);
            ids.push(if *is_msg { CoinId::Message(nonce(id)) } else { CoinId::Utxo(utxo(id)) });
        }
    }
    let _ = b;
    (Exclude::new(ids.clone()), ids.into_iter().collect())
}

fn path(q: &Query) -> &'static str {
    if q.indexed {
        "indexed"
    } else {
        "non-indexed"
    }
}

/// The oracle: exactly the statement of C37.
fn check(b: &Built, q: &Query, excluded: &BTreeSet<CoinId>, answer: &Answer) -> (String, Result<(), Violation>) {
    let ctx = || {
        format!(
            "path={} target={} max={} partial={} owner-resources={:?} excluded={:?}",
            path(q),
            q.target,
            q.max,
            q.partial,
            b.owner_resources.iter().map(|r| (format!("{:?}", r.id).chars().take(5).collect::<String>(), r.amount)).collect::<Vec<_>>(),
            excluded.len()
        )
    };
    let admissible: Vec<u64> = {
        let mut v: Vec<u64> = b.owner_resources.iter().filter(|r| !excluded.contains(&r.id)).map(|r| r.amount).collect();
        v.sort_unstable_by(|a, b| b.cmp(a));
        v
    };
    let best: u128 = admissible.iter().take(q.max as usize).map(|a| *a as u128).sum();
    match answer {
        Ok(per_asset) => {
            if per_asset.len() != 1 {
                return ("shape".into(), Err(viol("answer-shape", format!("{}: one asset requested, {} lists returned", ctx(), per_asset.len()))));
            }
            let coins = &per_asset[0];
            let mut seen: BTreeSet<CoinId> = BTreeSet::new();
            let mut total: u128 = 0;
            for c in coins {
                let id = c.coin_id();
                let Some(r) = b.owner_resources.iter().find(|r| r.id == id) else {
                    let why = b.foreign.get(&id).copied().unwrap_or("unknown-id");
                    return ("foreign".into(), Err(viol(format!("foreign-resource:{why}:{}", path(q)), format!("{}: the answer contains {id:?} ({why}), not an unspent resource of the requested owner and asset", ctx()))));
                };
                if c.amount() != r.amount || *c.owner() != addr(OWNER_A) || *c.asset_id(&base_asset()) != b.asset {
                    return ("wrong-data".into(), Err(viol(format!("resource-data-mismatch:{}", path(q)), format!("{}: {id:?} returned with amount {} owner {} (unspent resource has amount {})", ctx(), c.amount(), c.owner(), r.amount))));
                }
                if excluded.contains(&id) {
                    return ("excluded".into(), Err(viol(format!("excluded-resource-returned:{}", path(q)), format!("{}: the answer contains the excluded {id:?}", ctx()))));
                }
                if !seen.insert(id) {
                    return ("duplicate".into(), Err(viol(format!("duplicate-resource:{}", path(q)), format!("{}: {id:?} returned twice", ctx()))));
                }
                total += r.amount as u128;
            }
            if coins.len() > q.max as usize {
                return ("too-many".into(), Err(viol(format!("more-than-max:{}", path(q)), format!("{}: {} resources returned, max {}", ctx(), coins.len(), q.max))));
            }
            if !q.partial && total < q.target {
                let class = if q.max == 0 { "max=0" } else if best >= q.target { "although-a-covering-selection-exists" } else { "no-covering-selection-exists" };
                return (
                    "short".into(),
                    Err(viol(
                        format!("total-below-target:{class}:{}", path(q)),
                        format!("{}: partial results were not requested but the answer's total {total} ({} resources) is below the target {}", ctx(), coins.len(), q.target),
                    )),
                );
            }
            let class = if coins.is_empty() {
                "ok-empty"
            } else if total < q.target {
                "ok-partial-below-target"
            } else {
                "ok-covers-target"
            };
            (format!("{}:{class}", path(q)), Ok(()))
        }
        Err(e) => {
            let variant = match e {
                CoinsQueryError::InsufficientCoins { .. } => "insufficient-coins",
                CoinsQueryError::MaxCoinsReached { .. } => "max-coins-reached",
                _ => "other",
            };
            if variant == "other" {
                return ("err-other".into(), Err(viol(format!("unexpected-error:{}", path(q)), format!("{}: the query failed with {e}", ctx()))));
            }
            if best >= q.target {
                return (
                    "err-unjustified".into(),
                    Err(viol(
                        format!("error-although-selection-exists:{variant}:{}", path(q)),
                        format!("{}: error `{e}` although the {} largest non-excluded resources sum to {best} >= target", ctx(), q.max),
                    )),
                );
            }
            (format!("{}:err-{variant}", path(q)), Ok(()))
        }
    }
}

/// Enumerates every resolution of the choice seams for one query (odometer over the choice log).
fn for_every_choice(b: &Built, setup: &Setup, base: &Query, mut f: impl FnMut(&Query, &BTreeSet<CoinId>, &Answer)) {
    let (exclude, excluded) = exclude_of(b, base.excluded, setup);
    let mut prefix: Vec<u64> = vec![];
    loop {
        let q = Query { choices: prefix.clone(), ..base.clone() };
        let (answer, log) = run_query(b, &q, &exclude);
        let q = Query { choices: log.iter().map(|l| l.2).collect(), ..q };
        f(&q, &excluded, &answer);
        // next script
        let mut next: Option<Vec<u64>> = None;
        for i in (0..log.len()).rev() {
            if log[i].2 + 1 < log[i].1 {
                let mut p: Vec<u64> = log[..i].iter().map(|l| l.2).collect();
                p.push(log[i].2 + 1);
                next = Some(p);
                break;
            }
        }
        match next {
            Some(p) => prefix = p,
            None => break,
        }
    }
}

fn multisets(max_len: usize, alphabet: usize) -> Vec<Vec<usize>> {
    fn rec(start: usize, alphabet: usize, left: usize, cur: &mut Vec<usize>, out: &mut Vec<Vec<usize>>) {
        out.push(cur.clone());
        if left == 0 {
            return;
        }
        for a in start..alphabet {
            cur.push(a);
            rec(a, alphabet, left - 1, cur, out);
            cur.pop();
        }
    }
    let mut out = vec![];
    rec(0, alphabet, max_len, &mut vec![], &mut out);
    out
}

pub fn setups(max_len: usize, batch_sizes: &[usize]) -> Vec<Setup> {
    let mut out = vec![];
    // alphabet: (coin|message) x amount
    for ms in multisets(max_len, 2 * AMOUNTS.len()) {
        let resources: Vec<(bool, u8)> = ms.iter().map(|a| (*a >= AMOUNTS.len(), (*a % AMOUNTS.len()) as u8)).collect();
        for asset_x in [false, true] {
            for ids_descending in [false, true] {
                // the id order only decides ties between a coin and a message coin of
                // equal amount; for a non-base asset message coins are not candidates
                if ids_descending && (resources.len() < 2 || asset_x) {
                    continue;
                }
                for &batch_size in batch_sizes {
                    out.push(Setup { resources: resources.clone(), asset_x, ids_descending, batch_size });
                }
            }
        }
    }
    out
}

fn eval_setup(setup: &Setup, sw: &mut Sweep) {
    let b = match guarded(|| build(setup)) {
        Ok(b) => b,
        Err(p) => machinery_failure(&format!("C37: building the databases for {setup:?} panicked: {p}")),
    };
    let n = setup.resources.len();
    for indexed in [true, false] {
        for &target in &TARGETS {
            for &max in &MAXES {
                for partial in [false, true] {
                    for excluded in 0..(1u32 << n) {
                        let base = Query { indexed, target, max, partial, excluded, choices: vec![] };
                        let r = guarded(|| {
                            let mut results: Vec<(Query, String, Result<(), Violation>, bool)> = vec![];
                            for_every_choice(&b, setup, &base, |q, ex, answer| {
                                let (class, res) = check(&b, q, ex, answer);
                                let nontrivial = match answer {
                                    Ok(v) => v.iter().any(|c| !c.is_empty()),
                                    Err(_) => true,
                                };
                                results.push((q.clone(), class, res, nontrivial));
                            });
                            results
                        });
                        match r {
                            Err(p) => sw.case(None, "panic", || json!({"setup": setup, "query": base}), Err(viol(format!("panic:{}", path(&base)), format!("coins_to_spend panicked: {p}; setup {setup:?} query {base:?}")))),
                            Ok(results) => {
                                for (q, class, res, nontrivial) in results {
                                    let key = if nontrivial { Some(hash_of(&(setup, &q))) } else { None };
                                    sw.case(key, &class, || json!({"setup": setup, "query": q}), res);
                                }
                            }
                        }
                    }
                }
            }
        }
    }
}

fn replay(case: &Case) -> ! {
    let b = build(&case.setup);
    let (exclude, excluded) = exclude_of(&b, case.query.excluded, &case.setup);
    let (answer, log) = run_query(&b, &case.query, &exclude);
    println!("replay: setup {:?}", case.setup);
    println!("replay: query {:?} (choice log {:?})", case.query, log);
    match &answer {
        Ok(v) => println!("replay: answer Ok {:?}", v.iter().map(|l| l.iter().map(|c| (c.coin_id(), c.amount())).collect::<Vec<_>>()).collect::<Vec<_>>()),
        Err(e) => println!("replay: answer Err {e}"),
    }
    let (_, res) = check(&b, &case.query, &excluded, &answer);
    match res {
        Ok(()) => {
            println!("replay: no violation");
            std::process::exit(0)
        }
        Err(v) => {
            println!("replay: violation {} / {}", v.sig, v.msg);
            println!("VIOLATION property=C37 replay=(replayed)");
            std::process::exit(1)
        }
    }
}

pub fn main(cli: &Cli) {
    if let Some(path) = &cli.replay {
        let rf = load_replay(path);
        let case: Case = serde_json::from_value(rf.history.clone()).unwrap_or_else(|e| machinery_failure(&format!("bad C37 replay: {e}")));
        replay(&case);
    }
    let mut run = Run::new(cli, "exploration");
    let max_len = cli.tier.pick(4, 5);
    let batch_sizes: Vec<usize> = cli.tier.pick(vec![100], vec![1, 100]);
    let mut all = setups(max_len, &batch_sizes);
    all.sort_by_key(|s| s.resources.len());
    let mut sw = par_sweep(
        "coins_to_spend",
        "every multiset of <= N owner resources over {coin, message coin} x amounts {1,2,3,10,u64::MAX} (+ fixed distractors: other owner, other asset, message with data, spent coin, spent message), queried asset base / non-base, ids ascending / descending, x path {indexed, non-indexed} x target {0,1,4,11,2^64} x max {0,1,2,255} x partial x every exclusion subset x every outcome of the dust-count draw / of the shuffle; non-trivial = the answer is an error or a non-empty selection; distinct by the whole input incl. choices",
        all.len(),
        cli.threads,
        |i, sw| eval_setup(&all[i], sw),
    );
    crate::first_witnesses(&mut sw, all.len(), |i, sw| eval_setup(&all[i], sw));
    for need in ["indexed:ok-covers-target", "non-indexed:ok-covers-target", "indexed:ok-partial-below-target", "non-indexed:ok-partial-below-target", "indexed:err-insufficient-coins", "non-indexed:err-insufficient-coins", "indexed:err-max-coins-reached", "non-indexed:err-max-coins-reached"] {
        if !sw.outcomes.contains_key(need) && sw.violations.is_empty() {
            machinery_failure(&format!("C37: vacuous sweep, outcome class {need} never produced"));
        }
    }
    run.note("bounds", json!({"max_resources": max_len, "setups": all.len(), "batch_sizes": batch_sizes, "amounts": AMOUNTS, "targets": TARGETS.iter().map(|t| t.to_string()).collect::<Vec<_>>(), "maxes": MAXES}));
    run.add_sweep(sw);
    run.assume("admissible selection = at most `max` distinct non-excluded unspent resources of the requested owner and asset (coins; for the base asset also messages without data) whose total reaches the target; an InsufficientCoins / MaxCoinsReached error is accepted exactly when the `max` largest such resources sum below the target (also with partial=true)");
    run.assume("every permutation is a possible outcome of `inputs.shuffle(thread_rng())`, every value of 0..=upper_bound a possible outcome of the dust-count draw; the seams replace the draw by the enumerated value");
    run.finish();
}
