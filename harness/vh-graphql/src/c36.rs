//! C36 — off-chain indexes agree with the on-chain state.
//!
//! Real code: `worker_service::process_executor_events` (and through it
//! `indexation::balances::update`, `indexation::coins_to_spend::update`, the
//! owned-coin / owned-message bookkeeping) inside a real `Database<OffChain>`
//! transaction per block, committed like the worker does; read back through
//! the raw tables and through the `OffChainDatabase` read port of a latest view.
//!
//! Model: the UTXO set (unspent coins and messages). Histories are
//! *consistent*: only existing resources are consumed, identifiers are unique.
use crate::common::*;
use fuel_core::{
    database::{
        database_description::{off_chain::OffChain, DatabaseDescription, DatabaseMetadata, IndexationKind},
        metadata::MetadataTable,
    },
    fuel_core_graphql_api::{
        ports::OffChainDatabase,
        storage::{
            balances::{CoinBalances, MessageBalances},
            coins::{owner_coin_id_key, CoinsToSpendIndex, CoinsToSpendIndexKey, OwnedCoins},
            messages::{OwnedMessageIds, OwnedMessageKey},
        },
    },
};
use fuel_core_storage::{
    iter::{IterDirection, IteratorOverTable},
    transactional::AtomicView,
    StorageMutate,
};
use fuel_core_types::{
    fuel_tx::{Address, AssetId},
    fuel_types::BlockHeight,
    services::executor::Event,
};
use mcx::*;
use serde::{Deserialize, Serialize};
use serde_json::json;
use std::collections::{BTreeMap, BTreeSet};

#[derive(Clone, Copy, Debug, PartialEq, Eq, PartialOrd, Ord, Hash, Serialize, Deserialize)]
pub enum Kind {
    /// coin: owner (0 = A, 1 = B), asset (false = base, true = X), amount index
    Coin { o: u8, x: bool, m: u8 },
    /// message: owner, retryable, amount index
    Msg { o: u8, r: bool, m: u8 },
}

const AMOUNTS: [u64; 3] = [1, u64::MAX, 1u64 << 63];

impl Kind {
    fn code(&self) -> u32 {
        match *self {
            Kind::Coin { o, x, m } => (o as u32) * 16 + (x as u32) * 8 + m as u32,
            Kind::Msg { o, r, m } => 64 + (o as u32) * 16 + (r as u32) * 8 + m as u32,
        }
    }
    fn owner(&self) -> Address {
        let o = match *self {
            Kind::Coin { o, .. } | Kind::Msg { o, .. } => o,
        };
        addr(if o == 0 { OWNER_A } else { OWNER_B })
    }
    fn amount(&self) -> u64 {
        let m = match *self {
            Kind::Coin { m, .. } | Kind::Msg { m, .. } => m,
        };
        AMOUNTS[m as usize]
    }
    fn asset(&self) -> AssetId {
        match *self {
            Kind::Coin { x: true, .. } => asset_x(),
            _ => base_asset(),
        }
    }
    fn is_coin(&self) -> bool {
        matches!(self, Kind::Coin { .. })
    }
    fn retryable(&self) -> bool {
        matches!(self, Kind::Msg { r: true, .. })
    }
}

#[derive(Clone, Copy, Debug, PartialEq, Eq, Serialize, Deserialize)]
pub enum Ev {
    /// CoinCreated / MessageImported of a fresh resource of this kind
    Create(Kind),
    /// CoinConsumed / MessageConsumed of the live resource with this id
    Spend(u32),
}

#[derive(Clone, Debug, Serialize, Deserialize)]
pub struct Block(pub Vec<Ev>);

#[derive(Clone, Default)]
struct Model {
    /// unspent resources: id -> kind (id = kind code * 256 + ordinal of creation within the kind)
    live: BTreeMap<u32, Kind>,
    /// resources of each kind created so far (fresh ids)
    created: BTreeMap<u32, u32>,
}

impl Model {
    fn apply(&mut self, ev: &Ev) -> u32 {
        match ev {
            Ev::Create(k) => {
                let n = self.created.entry(k.code()).or_default();
                let id = k.code() * 256 + *n;
                *n += 1;
                self.live.insert(id, *k);
                id
            }
            Ev::Spend(id) => {
                self.live.remove(id);
                *id
            }
        }
    }
}

pub struct World {
    off: OffDb,
    model: Model,
    blocks: u32,
    used: usize,
}

#[derive(Clone)]
pub struct C36 {
    pub name: String,
    pub kinds: Vec<Kind>,
    pub max_per_block: usize,
    pub max_events: usize,
    pub max_blocks: usize,
    /// indexations available in the database (None = fresh database: all)
    pub availability: Option<Vec<IndexationKind>>,
}

fn to_event(ev: &Ev, model_before: &Model, id: u32) -> Event {
    let k = match ev {
        Ev::Create(k) => *k,
        Ev::Spend(id) => model_before.live[id],
    };
    match (ev, k.is_coin()) {
        (Ev::Create(_), true) => Event::CoinCreated(coin(id, k.owner(), k.asset(), k.amount())),
        (Ev::Spend(_), true) => Event::CoinConsumed(coin(id, k.owner(), k.asset(), k.amount())),
        (Ev::Create(_), false) => Event::MessageImported(message(id, k.owner(), k.amount(), k.retryable())),
        (Ev::Spend(_), false) => Event::MessageConsumed(message(id, k.owner(), k.amount(), k.retryable())),
    }
}

impl C36 {
    fn has(&self, kind: IndexationKind) -> bool {
        self.availability.as_ref().map(|a| a.contains(&kind)).unwrap_or(true)
    }

    fn blocks_from(&self, model: &Model, budget: usize, prefix: &mut Vec<Ev>, out: &mut Vec<Block>) {
        if prefix.len() == budget {
            return;
        }
        let mut menu: Vec<Ev> = self.kinds.iter().map(|k| Ev::Create(*k)).collect();
        menu.extend(model.live.keys().map(|id| Ev::Spend(*id)));
        for ev in menu {
            let mut m = model.clone();
            m.apply(&ev);
            prefix.push(ev);
            out.push(Block(prefix.clone()));
            self.blocks_from(&m, budget, prefix, out);
            prefix.pop();
        }
    }

    /// Oracle: every index equals what the model's unspent set implies.
    fn check(&self, w: &World) -> Result<(), Violation> {
        let db = &w.off.db;
        let owners = [addr(OWNER_A), addr(OWNER_B)];
        let assets = [base_asset(), asset_x()];
        let live = &w.model.live;
        let fmt_live = || format!("{:?}", live.iter().map(|(id, k)| (*id, *k)).collect::<Vec<_>>());

        if self.has(IndexationKind::Balances) {
            // CoinBalances
            let mut expect: BTreeMap<(Address, AssetId), u128> = BTreeMap::new();
            for k in live.values().filter(|k| k.is_coin()) {
                *expect.entry((k.owner(), k.asset())).or_default() += k.amount() as u128;
            }
            let mut seen: BTreeMap<(Address, AssetId), u128> = BTreeMap::new();
            for item in db.iter_all::<CoinBalances>(None) {
                let (key, v) = item.map_err(|e| viol("storage-error", format!("CoinBalances iteration: {e}")))?;
                seen.insert((*key.address(), *key.asset_id()), v);
            }
            for o in &owners {
                for a in &assets {
                    let e = expect.get(&(*o, *a)).copied().unwrap_or(0);
                    let s = seen.get(&(*o, *a)).copied().unwrap_or(0);
                    if e != s {
                        let class = if s > e { "index-too-high" } else { "index-too-low" };
                        return Err(viol(
                            format!("coin-balance:{class}"),
                            format!("CoinBalances[{o}, {a}] = {s}, the owner's unspent coins of the asset sum to {e}; unspent set {}", fmt_live()),
                        ));
                    }
                }
            }
            if let Some(((o, a), v)) = seen.iter().find(|((o, a), v)| **v != 0 && !(owners.contains(o) && assets.contains(a))) {
                return Err(viol("coin-balance:foreign-key", format!("CoinBalances has a non-zero entry [{o}, {a}] = {v} for an owner/asset that never held a coin")));
            }
            // MessageBalances
            let mut seen_m: BTreeMap<Address, (u128, u128)> = BTreeMap::new();
            for item in db.iter_all::<MessageBalances>(None) {
                let (key, v) = item.map_err(|e| viol("storage-error", format!("MessageBalances iteration: {e}")))?;
                seen_m.insert(key, (v.retryable, v.non_retryable));
            }
            for o in &owners {
                let mut e = (0u128, 0u128);
                for k in live.values().filter(|k| !k.is_coin() && k.owner() == *o) {
                    if k.retryable() {
                        e.0 += k.amount() as u128;
                    } else {
                        e.1 += k.amount() as u128;
                    }
                }
                let s = seen_m.get(o).copied().unwrap_or((0, 0));
                if e != s {
                    let class = if e.0 + e.1 == s.0 + s.1 { "retryable-split" } else if s.0 + s.1 > e.0 + e.1 { "index-too-high" } else { "index-too-low" };
                    return Err(viol(
                        format!("message-balance:{class}"),
                        format!("MessageBalances[{o}] = (retryable {}, non-retryable {}), the owner's unspent messages sum to (retryable {}, non-retryable {}); unspent set {}", s.0, s.1, e.0, e.1, fmt_live()),
                    ));
                }
            }
            if let Some((o, v)) = seen_m.iter().find(|(o, v)| **v != (0, 0) && !owners.contains(o)) {
                return Err(viol("message-balance:foreign-key", format!("MessageBalances has a non-zero entry for {o}: {v:?}")));
            }
        }

        // OwnedCoins
        let expect_oc: BTreeSet<Vec<u8>> = live.iter().filter(|(_, k)| k.is_coin()).map(|(id, k)| owner_coin_id_key(&k.owner(), &utxo(*id)).to_vec()).collect();
        let mut seen_oc: BTreeSet<Vec<u8>> = BTreeSet::new();
        for item in db.iter_all_keys::<OwnedCoins>(None) {
            seen_oc.insert(item.map_err(|e| viol("storage-error", format!("OwnedCoins iteration: {e}")))?.to_vec());
        }
        if expect_oc != seen_oc {
            let class = if seen_oc.difference(&expect_oc).next().is_some() { "lists-spent-or-unknown-coin" } else { "misses-unspent-coin" };
            return Err(viol(format!("owned-coins:{class}"), format!("OwnedCoins lists {} entries, the model has {} unspent coins; missing {:?} extra {:?}; unspent set {}", seen_oc.len(), expect_oc.len(), expect_oc.difference(&seen_oc).map(hex::encode).collect::<Vec<_>>(), seen_oc.difference(&expect_oc).map(hex::encode).collect::<Vec<_>>(), fmt_live())));
        }
        // OwnedMessageIds
        let expect_om: BTreeSet<Vec<u8>> = live.iter().filter(|(_, k)| !k.is_coin()).map(|(id, k)| OwnedMessageKey::new(&k.owner(), &nonce(*id)).as_ref().to_vec()).collect();
        let mut seen_om: BTreeSet<Vec<u8>> = BTreeSet::new();
        for item in db.iter_all_keys::<OwnedMessageIds>(None) {
            seen_om.insert(item.map_err(|e| viol("storage-error", format!("OwnedMessageIds iteration: {e}")))?.as_ref().to_vec());
        }
        if expect_om != seen_om {
            let class = if seen_om.difference(&expect_om).next().is_some() { "lists-spent-or-unknown-message" } else { "misses-unspent-message" };
            return Err(viol(format!("owned-messages:{class}"), format!("OwnedMessageIds lists {} entries, the model has {} unspent messages; missing {:?} extra {:?}; unspent set {}", seen_om.len(), expect_om.len(), expect_om.difference(&seen_om).map(hex::encode).collect::<Vec<_>>(), seen_om.difference(&expect_om).map(hex::encode).collect::<Vec<_>>(), fmt_live())));
        }

        if self.has(IndexationKind::CoinsToSpend) {
            // table: exactly one entry per unspent resource, carrying its owner, asset, amount and id
            let key_of = |id: u32, k: &Kind| -> CoinsToSpendIndexKey {
                if k.is_coin() {
                    CoinsToSpendIndexKey::from_coin(&coin(id, k.owner(), k.asset(), k.amount()))
                } else {
                    CoinsToSpendIndexKey::from_message(&message(id, k.owner(), k.amount(), k.retryable()), &base_asset())
                }
            };
            let expect_ix: BTreeSet<CoinsToSpendIndexKey> = live.iter().map(|(id, k)| key_of(*id, k)).collect();
            let mut seen_ix: BTreeSet<CoinsToSpendIndexKey> = BTreeSet::new();
            for item in db.iter_all_keys::<CoinsToSpendIndex>(None) {
                seen_ix.insert(item.map_err(|e| viol("storage-error", format!("CoinsToSpendIndex iteration: {e}")))?);
            }
            if expect_ix != seen_ix {
                let extra: Vec<_> = seen_ix.difference(&expect_ix).collect();
                let missing: Vec<_> = expect_ix.difference(&seen_ix).collect();
                let class = if !extra.is_empty() && !missing.is_empty() { "wrong-entry" } else if !extra.is_empty() { "lists-spent-or-unknown-resource" } else { "misses-unspent-resource" };
                return Err(viol(format!("coins-to-spend-index:{class}"), format!("CoinsToSpendIndex has {} entries for {} unspent resources; missing {missing:?}; extra {extra:?}; unspent set {}", seen_ix.len(), expect_ix.len(), fmt_live())));
            }
        }

        // read port of a latest view (what ReadView uses)
        let view = db.latest_view().map_err(|e| viol("storage-error", format!("latest_view: {e}")))?;
        let base = base_asset();
        for o in &owners {
            let coins_of: BTreeSet<_> = live.iter().filter(|(_, k)| k.is_coin() && k.owner() == *o).map(|(id, _)| utxo(*id)).collect();
            let got: BTreeSet<_> = OffChainDatabase::owned_coins_ids(&view, o, None, IterDirection::Forward).collect::<Result<_, _>>().map_err(|e| viol("storage-error", format!("owned_coins_ids: {e}")))?;
            if got != coins_of {
                return Err(viol("port:owned-coins-ids", format!("owned_coins_ids({o}) = {got:?}, unspent coins of the owner = {coins_of:?}")));
            }
            let msgs_of: BTreeSet<_> = live.iter().filter(|(_, k)| !k.is_coin() && k.owner() == *o).map(|(id, _)| nonce(*id)).collect();
            let got: BTreeSet<_> = OffChainDatabase::owned_message_ids(&view, o, None, IterDirection::Forward).collect::<Result<_, _>>().map_err(|e| viol("storage-error", format!("owned_message_ids: {e}")))?;
            if got != msgs_of {
                return Err(viol("port:owned-message-ids", format!("owned_message_ids({o}) = {got:?}, unspent messages of the owner = {msgs_of:?}")));
            }
            for a in &assets {
                if self.has(IndexationKind::Balances) {
                    let mut e: u128 = live.values().filter(|k| k.is_coin() && k.owner() == *o && k.asset() == *a).map(|k| k.amount() as u128).sum();
                    if *a == base {
                        e += live.values().filter(|k| !k.is_coin() && !k.retryable() && k.owner() == *o).map(|k| k.amount() as u128).sum::<u128>();
                    }
                    match OffChainDatabase::balance(&view, o, a, &base) {
                        Ok(b) if b == e => {}
                        Ok(b) => return Err(viol("port:balance", format!("balance({o}, {a}) = {b}, unspent coins (+ spendable messages for the base asset) sum to {e}; unspent set {}", fmt_live()))),
                        Err(err) => return Err(viol("port:balance-error", format!("balance({o}, {a}) failed: {err}; expected {e}"))),
                    }
                }
                if self.has(IndexationKind::CoinsToSpend) {
                    // spendable resources: coins of (owner, asset); for the base asset also messages without data
                    let expect: BTreeSet<(u64, String)> = live
                        .iter()
                        .filter(|(_, k)| k.owner() == *o && k.asset() == *a && !k.retryable())
                        .map(|(id, k)| (k.amount(), if k.is_coin() { format!("utxo:{}", utxo(*id)) } else { format!("nonce:{}", nonce(*id)) }))
                        .collect();
                    let it = OffChainDatabase::coins_to_spend_index(&view, o, a);
                    let norm = |k: CoinsToSpendIndexKey| match k {
                        CoinsToSpendIndexKey::Coin { amount, utxo_id, .. } => (amount, format!("utxo:{utxo_id}")),
                        CoinsToSpendIndexKey::Message { amount, nonce, .. } => (amount, format!("nonce:{nonce}")),
                    };
                    let big: Vec<_> = it.big_coins_iter.map(|r| r.map(norm)).collect::<Result<_, _>>().map_err(|e| viol("storage-error", format!("coins_to_spend_index: {e}")))?;
                    let dust: Vec<_> = it.dust_coins_iter.map(|r| r.map(norm)).collect::<Result<_, _>>().map_err(|e| viol("storage-error", format!("coins_to_spend_index: {e}")))?;
                    let bigset: BTreeSet<_> = big.iter().cloned().collect();
                    let dustset: BTreeSet<_> = dust.iter().cloned().collect();
                    if bigset != expect || dustset != expect || big.len() != expect.len() || dust.len() != expect.len() {
                        return Err(viol("port:coins-to-spend-index", format!("coins_to_spend_index({o}, {a}) lists big={big:?} dust={dust:?}, the owner's unspent spendable resources of the asset are {expect:?}")));
                    }
                }
            }
        }
        Ok(())
    }
}

impl Subject for C36 {
    type World = World;
    type Op = Block;

    fn name(&self) -> String {
        self.name.clone()
    }

    fn fresh(&self) -> World {
        let mut off = OffDb::new();
        if let Some(av) = &self.availability {
            let meta = DatabaseMetadata::V2 { version: OffChain::version(), height: BlockHeight::from(0u32), indexation_availability: av.iter().copied().collect() };
            StorageMutate::<MetadataTable<OffChain>>::insert(&mut off.db, &(), &meta).expect("metadata write");
            off = off.deep_clone();
        }
        World { off, model: Model::default(), blocks: 0, used: 0 }
    }

    fn enabled(&self, w: &World) -> Vec<Block> {
        if w.blocks as usize >= self.max_blocks {
            return vec![];
        }
        let budget = self.max_per_block.min(self.max_events.saturating_sub(w.used));
        let mut out = vec![];
        self.blocks_from(&w.model, budget, &mut vec![], &mut out);
        out
    }

    fn step(&self, w: &mut World, op: &Block) -> Result<String, Violation> {
        let mut events = vec![];
        for ev in &op.0 {
            if let Ev::Spend(id) = ev {
                if !w.model.live.contains_key(id) {
                    machinery_failure(&format!("C36: inconsistent history, {id} is not unspent"));
                }
            }
            let before = w.model.clone();
            let id = w.model.apply(ev);
            events.push(to_event(ev, &before, id));
        }
        w.blocks += 1;
        w.used += op.0.len();
        w.off.apply_block(&events, w.blocks).map_err(|e| viol("worker-error", format!("processing a consistent block failed: {e}")))?;
        self.check(w)?;
        let coins = w.model.live.values().filter(|k| k.is_coin()).count();
        Ok(format!("h={} unspent coins={} msgs={} ids={:?}", w.blocks, coins, w.model.live.len() - coins, w.model.live.keys().collect::<Vec<_>>()))
    }

    fn canon(&self, w: &World) -> Vec<u8> {
        // the model, the remaining budgets and the raw content of every off-chain
        // column except the ones this code never reads back (block id -> height
        // links, metadata height, spent-message markers)
        let mut dump = w.off.dump();
        dump.remove(&0); // Metadata (height only; availability is fixed per subject)
        dump.remove(&7); // FuelBlockIdsToHeights
        dump.remove(&13); // SpentMessages (write-only for the worker)
        let v = (w.model.live.iter().collect::<Vec<_>>(), w.model.created.iter().collect::<Vec<_>>(), w.used, dump);
        serde_json::to_vec(&v).unwrap()
    }

    fn clone_world(&self, w: &World) -> Option<World> {
        Some(World { off: w.off.deep_clone(), model: w.model.clone(), blocks: w.blocks, used: w.used })
    }

    fn label(&self, op: &Block) -> String {
        let c = op.0.iter().filter(|e| matches!(e, Ev::Create(_))).count();
        format!("block-create{}-spend{}", c, op.0.len() - c)
    }

    fn interesting(&self, op: &Block, _obs: &str) -> bool {
        op.0.iter().any(|e| matches!(e, Ev::Spend(_)))
    }

    fn required_labels(&self) -> Vec<String> {
        vec!["block-create1-spend0".into(), "block-create0-spend1".into(), "block-create1-spend1".into()]
    }
}

fn kinds(amounts: usize, owners: u8) -> Vec<Kind> {
    let mut v = vec![];
    for o in 0..owners {
        for m in 0..amounts as u8 {
            for x in [false, true] {
                v.push(Kind::Coin { o, x, m });
            }
            for r in [false, true] {
                v.push(Kind::Msg { o, r, m });
            }
        }
    }
    v
}

fn subjects(cli: &Cli) -> Vec<C36> {
    let t = cli.tier;
    vec![
        C36 { name: "both-indexations".into(), kinds: kinds(t.pick(2, 3), 2), max_per_block: 3, max_events: t.pick(4, 5), max_blocks: t.pick(3, 4), availability: None },
        C36 { name: "deep-one-owner".into(), kinds: kinds(2, 1), max_per_block: 3, max_events: t.pick(6, 8), max_blocks: t.pick(3, 4), availability: None },
        C36 { name: "balances-only".into(), kinds: kinds(2, 2), max_per_block: 3, max_events: t.pick(3, 4), max_blocks: 3, availability: Some(vec![IndexationKind::Balances]) },
        C36 { name: "coins-to-spend-only".into(), kinds: kinds(2, 2), max_per_block: 3, max_events: t.pick(3, 4), max_blocks: 3, availability: Some(vec![IndexationKind::CoinsToSpend]) },
    ]
}

pub fn main(cli: &Cli) {
    let subs = subjects(cli);
    if let Some(path) = &cli.replay {
        let rf = load_replay(path);
        let s = subs.iter().find(|s| s.name == rf.subject).unwrap_or_else(|| machinery_failure(&format!("unknown C36 subject {}", rf.subject)));
        replay_and_exit(s, &rf);
    }
    let mut run = Run::new(cli, "model_checking");
    for s in &subs {
        let b = Bounds::new(s.max_blocks, cli).wall(cli.tier.pick(40, 1200));
        let rep = explore(s, &b);
        run.add(rep);
    }
    run.note(
        "bounds",
        json!(subs.iter().map(|s| json!({"subject": s.name, "kinds": s.kinds.len(), "max_events_per_block": s.max_per_block, "max_events_total": s.max_events, "max_blocks": s.max_blocks, "availability": s.availability.as_ref().map(|a| a.iter().map(|k| format!("{k:?}")).collect::<Vec<_>>())})).collect::<Vec<_>>()),
    );
    run.assume("histories are consistent: a coin / message is consumed only while unspent and its consumption event repeats the creation data; utxo ids and nonces are never reused");
    run.assume("balances are compared as u128 sums (the width the index stores); `balance()` of the base asset = coins + messages without data");
    run.assume("identifiers are canonical per (kind, ordinal of creation within the kind): states reached by creating the same resources in a different order coincide");
    run.finish();
}
