//! Shared pieces of the C36 / C37 harnesses: deterministic identities, event
//! construction and a real in-memory off-chain `Database<OffChain>` driven by
//! the real `process_executor_events`.
use fuel_core::{
    database::{database_description::off_chain::OffChain, Database},
    fuel_core_graphql_api::{
        ports::worker::OffChainDatabase as WorkerOffChainDatabase,
        storage::{blocks::FuelBlockIdsToHeights, Column},
        worker_service::process_executor_events,
    },
    state::{in_memory::memory_store::MemoryStore, TransactableStorage},
};
use fuel_core_storage::{
    iter::{IterDirection, IterableStore},
    kv_store::WriteOperation,
    transactional::{Changes, StorageChanges, WriteTransaction},
    StorageAsMut,
};
use fuel_core_types::{
    blockchain::primitives::{BlockId, DaBlockHeight},
    entities::{
        coins::coin::Coin,
        relayer::message::{Message, MessageV1},
    },
    fuel_tx::{Address, AssetId, Bytes32, UtxoId},
    fuel_types::{BlockHeight, Nonce},
    services::executor::Event,
};
use std::{borrow::Cow, collections::BTreeMap, sync::Arc};

pub const OWNER_A: u8 = 0xA1;
pub const OWNER_B: u8 = 0xB2;

pub fn addr(tag: u8) -> Address {
    Address::new([tag; 32])
}

pub fn base_asset() -> AssetId {
    AssetId::BASE
}

pub fn asset_x() -> AssetId {
    AssetId::new([0x58; 32])
}

pub fn utxo(n: u32) -> UtxoId {
    let mut b = [0u8; 32];
    b[0] = 0xC0;
    b[28..].copy_from_slice(&n.to_be_bytes());
    UtxoId::new(Bytes32::new(b), (n % 3) as u16)
}

pub fn nonce(n: u32) -> Nonce {
    let mut b = [0u8; 32];
    b[0] = 0xC0;
    b[28..].copy_from_slice(&n.to_be_bytes());
    Nonce::new(b)
}

pub fn coin(id: u32, owner: Address, asset: AssetId, amount: u64) -> Coin {
    Coin { utxo_id: utxo(id), owner, amount, asset_id: asset, tx_pointer: Default::default() }
}

pub fn message(id: u32, owner: Address, amount: u64, retryable: bool) -> Message {
    MessageV1 {
        sender: addr(0x5E),
        recipient: owner,
        nonce: nonce(id),
        amount,
        // a message with data can not be spent as a coin: "retryable"
        data: if retryable { vec![0xDA] } else { vec![] },
        da_height: DaBlockHeight(1),
    }
    .into()
}

/// A real off-chain database over an in-memory store we keep a handle to
/// (for raw dumps and deep copies).
pub struct OffDb {
    pub store: Arc<MemoryStore<OffChain>>,
    pub db: Database<OffChain>,
}

impl OffDb {
    pub fn new() -> OffDb {
        let store = Arc::new(MemoryStore::<OffChain>::default());
        let db = Database::<OffChain>::new(store.clone());
        OffDb { store, db }
    }

    /// Raw content of every column (column id -> key -> value).
    pub fn dump(&self) -> BTreeMap<u32, Vec<(Vec<u8>, Vec<u8>)>> {
        let mut out = BTreeMap::new();
        for column in enum_iterator::all::<Column>() {
            let items: Vec<(Vec<u8>, Vec<u8>)> = self
                .store
                .iter_store(column, None, None, IterDirection::Forward)
                .map(|kv| {
                    let (k, v) = kv.expect("in-memory iteration cannot fail");
                    (k, v.as_ref().to_vec())
                })
                .collect();
            if !items.is_empty() {
                out.insert(column.as_u32(), items);
            }
        }
        out
    }

    /// Deep copy: a new store with the same raw content, and a new `Database`
    /// over it (which re-reads its height from the metadata table like a
    /// restarted node does).
    pub fn deep_clone(&self) -> OffDb {
        let store = Arc::new(MemoryStore::<OffChain>::default());
        let mut changes = Changes::default();
        for (column, items) in self.dump() {
            let tree = changes.entry(column).or_default();
            for (k, v) in items {
                tree.insert(k.into(), WriteOperation::Insert(v.into()));
            }
        }
        TransactableStorage::<BlockHeight>::commit_changes(store.as_ref(), None, StorageChanges::Changes(changes)).expect("raw copy into a fresh in-memory store");
        let db = Database::<OffChain>::new(store.clone());
        OffDb { store, db }
    }

    /// What the off-chain worker does with the events of one imported block:
    /// one database transaction, `process_executor_events` with the
    /// indexation flags read from the database, the block id -> height link,
    /// commit.
    pub fn apply_block(&mut self, events: &[Event], height: u32) -> anyhow::Result<()> {
        let balances = self.db.balances_indexation_enabled()?;
        let coins_to_spend = self.db.coins_to_spend_indexation_enabled()?;
        let base = base_asset();
        let mut tx = self.db.write_transaction();
        process_executor_events(events.iter().map(Cow::Borrowed), &mut tx, balances, coins_to_spend, &base)?;
        let mut id = [0u8; 32];
        id[0] = 0xB1;
        id[28..].copy_from_slice(&height.to_be_bytes());
        tx.storage_as_mut::<FuelBlockIdsToHeights>().insert(&BlockId::from(Bytes32::new(id)), &BlockHeight::from(height))?;
        tx.commit()?;
        Ok(())
    }
}
