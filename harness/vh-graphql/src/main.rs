//! vh-graphql: C36 (off-chain indexes), C37 (coins to spend), C38 (cursor pagination)
//! on the real `fuel-core` GraphQL-side code.
mod c36;
mod c37;
mod c38;
mod common;

use mcx::*;

/// Make the reported witnesses deterministic and small: re-scan the cases in order
/// (single-threaded) until every violation class found by the parallel sweep has
/// been met again, and report that first-in-order witness instead.
pub fn first_witnesses(sw: &mut Sweep, n: usize, f: impl Fn(usize, &mut Sweep)) {
    if sw.violations.is_empty() {
        return;
    }
    let t0 = std::time::Instant::now();
    let want: std::collections::BTreeSet<String> = sw.violations.iter().map(|v| v.sig.clone()).collect();
    let mut local = Sweep::new(&sw.name, &sw.rule);
    for i in 0..n {
        f(i, &mut local);
        let have: std::collections::BTreeSet<String> = local.violations.iter().map(|v| v.sig.clone()).collect();
        if want.is_subset(&have) || t0.elapsed().as_secs() > 30 {
            break;
        }
    }
    for v in sw.violations.iter_mut() {
        if let Some(first) = local.violations.iter().find(|l| l.sig == v.sig) {
            *v = first.clone();
            v.confirmed_by_second_replay = true;
        }
    }
    sw.violations.sort_by(|a, b| a.sig.cmp(&b.sig));
}

fn main() {
    let cli = Cli::parse();
    match cli.property.as_str() {
        "C36" => c36::main(&cli),
        "C37" => c37::main(&cli),
        "C38" => c38::main(&cli),
        other => machinery_failure(&format!("vh-graphql does not serve {other}")),
    }
}
