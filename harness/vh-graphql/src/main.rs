//! vh-graphql: C36 (off-chain indexes), C37 (coins to spend), C38 (cursor pagination)
//! on the real `fuel-core` GraphQL-side code.
mod c36;
mod c37;
mod c38;
mod common;

use mcx::*;

fn main() {
    let cli = Cli::parse();
    match cli.property.as_str() {
        "C36" => c36::main(&cli),
        "C37" => c37::main(&cli),
        "C38" => c38::main(&cli),
        other => machinery_failure(&format!("vh-graphql does not serve {other}")),
    }
}
