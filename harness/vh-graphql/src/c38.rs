//! C38 — cursor pagination enumerates every entry exactly once.
//!
//! Real code: the private `fuel_core::schema::query_pagination` (through the
//! add-only `verif_hooks::verif_query_pagination` wrapper), fed by an `entries`
//! closure that behaves like every storage iterator of fuel-core
//! (`iter_all_by_start`: forward = keys >= start ascending, reverse = keys <=
//! start descending).
//!
//! Convention of the checked API (and of `fuel-core-client`): a page is
//! continued with its **end cursor** (`after: end_cursor` for `first`,
//! `before: end_cursor` for `last`) while `has_next_page` is true — in both
//! directions the edges come in traversal order and the flags are read in
//! traversal direction.
use fuel_core::schema::verif_hooks::{verif_query_pagination, VerifPage};
use fuel_core_storage::{iter::IterDirection, Result as StorageResult};
use mcx::*;
use serde::{Deserialize, Serialize};
use serde_json::json;

#[derive(Clone, Debug, Serialize, Deserialize)]
pub struct Query {
    /// keys of the collection (ascending, distinct)
    pub keys: Vec<u64>,
    pub after: Option<String>,
    pub before: Option<String>,
    pub first: Option<i32>,
    pub last: Option<i32>,
}

#[derive(Clone, Debug, Serialize, Deserialize)]
pub struct Case {
    pub kind: String, // "page" | "traversal" | "illegal"
    pub query: Query,
}

fn value_of(key: u64) -> u64 {
    key.wrapping_mul(7).wrapping_add(1)
}

/// One call of the real code.
pub fn run_query(q: &Query) -> Result<VerifPage<u64>, String> {
    let keys = q.keys.clone();
    let fut = verif_query_pagination(q.after.clone(), q.before.clone(), q.first, q.last, move |start: &Option<u64>, direction: IterDirection| {
        // the contract of `iter_all_by_start(start, direction)`
        let items: Vec<StorageResult<(u64, u64)>> = match direction {
            IterDirection::Forward => keys.iter().copied().filter(|k| start.map(|s| *k >= s).unwrap_or(true)).map(|k| Ok((k, value_of(k)))).collect(),
            IterDirection::Reverse => keys.iter().rev().copied().filter(|k| start.map(|s| *k <= s).unwrap_or(true)).map(|k| Ok((k, value_of(k)))).collect(),
        };
        Ok(futures::stream::iter(items))
    });
    futures::executor::block_on(fut)
}

#[derive(Clone, Copy, PartialEq, Eq, Debug)]
enum Dir {
    Fwd,
    Bwd,
}

fn mk_query(keys: &[u64], dir: Dir, cursor: Option<u64>, size: i32) -> Query {
    match dir {
        Dir::Fwd => Query { keys: keys.to_vec(), after: cursor.map(|c| c.to_string()), before: None, first: Some(size), last: None },
        Dir::Bwd => Query { keys: keys.to_vec(), after: None, before: cursor.map(|c| c.to_string()), first: None, last: Some(size) },
    }
}

/// Entries strictly beyond `cursor` in traversal direction, in traversal order.
fn remaining(keys: &[u64], dir: Dir, cursor: Option<u64>) -> Vec<u64> {
    match dir {
        Dir::Fwd => keys.iter().copied().filter(|k| cursor.map(|c| *k > c).unwrap_or(true)).collect(),
        Dir::Bwd => keys.iter().rev().copied().filter(|k| cursor.map(|c| *k < c).unwrap_or(true)).collect(),
    }
}

fn dname(d: Dir) -> &'static str {
    match d {
        Dir::Fwd => "forward",
        Dir::Bwd => "backward",
    }
}

/// Oracle for one page. Returns the number of unchecked back-flags (cursor not in the collection).
fn check_page(keys: &[u64], dir: Dir, cursor: Option<u64>, size: i32, page: &VerifPage<u64>) -> Result<bool, Violation> {
    let rem = remaining(keys, dir, cursor);
    let size_u = size as usize;
    let expect: Vec<u64> = rem.iter().copied().take(size_u).collect();
    let got: Vec<u64> = page.edges.iter().map(|(c, _)| c.parse::<u64>().unwrap_or(u64::MAX)).collect();
    let ctx = || format!("keys={keys:?} dir={} cursor={cursor:?} size={size}", dname(dir));
    if got.len() > size_u {
        return Err(viol(format!("page-larger-than-size:{}", dname(dir)), format!("{}: page has {} entries {got:?}, page size {size}", ctx(), got.len())));
    }
    if got != expect {
        let class = if got.iter().any(|k| !rem.contains(k)) {
            "entry-not-beyond-cursor"
        } else if got.len() < expect.len() {
            "entries-missing"
        } else {
            "wrong-order-or-content"
        };
        return Err(viol(format!("page-content:{class}:{}", dname(dir)), format!("{}: expected page {expect:?}, observed {got:?}", ctx())));
    }
    for (c, v) in &page.edges {
        let k: u64 = c.parse().unwrap_or(u64::MAX);
        if *v != value_of(k) {
            return Err(viol("edge-node-mismatch", format!("{}: edge with cursor {c} carries node {v}, expected {}", ctx(), value_of(k))));
        }
    }
    let more = rem.len() > size_u;
    if page.has_next_page != more {
        return Err(viol(
            format!("has-next-page:{}:{}", if more { "false-but-more-exist" } else { "true-but-none-left" }, dname(dir)),
            format!("{}: has_next_page={} but entries remaining beyond the page in traversal direction = {}", ctx(), page.has_next_page, rem.len().saturating_sub(size_u)),
        ));
    }
    // flag against the traversal direction: entries behind the page
    match cursor {
        None => {
            if page.has_previous_page {
                return Err(viol(format!("has-previous-page:true-at-start:{}", dname(dir)), format!("{}: has_previous_page=true on the first page of a traversal", ctx())));
            }
            Ok(false)
        }
        Some(c) if keys.contains(&c) => {
            if !page.has_previous_page {
                return Err(viol(
                    format!("has-previous-page:false-but-entries-behind:{}", dname(dir)),
                    format!("{}: has_previous_page=false although the cursor entry {c} lies behind the page", ctx()),
                ));
            }
            Ok(false)
        }
        // A cursor that is not an entry can not come out of a traversal of this
        // collection; the statement does not fix the back flag there.
        Some(_) => Ok(true),
    }
}

fn check_traversal(keys: &[u64], dir: Dir, size: i32) -> Result<usize, Violation> {
    let whole = remaining(keys, dir, None);
    let mut seen: Vec<u64> = vec![];
    let mut cursor: Option<u64> = None;
    let mut pages = 0usize;
    let ctx = |seen: &Vec<u64>| format!("keys={keys:?} dir={} size={size} enumerated-so-far={seen:?}", dname(dir));
    loop {
        let q = mk_query(keys, dir, cursor, size);
        let page = run_query(&q).map_err(|e| viol(format!("traversal-error:{}", dname(dir)), format!("{}: query failed: {e}", ctx(&seen))))?;
        pages += 1;
        check_page(keys, dir, cursor, size, &page)?;
        for (c, _) in &page.edges {
            seen.push(c.parse().unwrap_or(u64::MAX));
        }
        if !page.has_next_page {
            break;
        }
        match page.edges.last() {
            Some((c, _)) => cursor = c.parse().ok(),
            None => return Err(viol(format!("traversal-stuck:{}", dname(dir)), format!("{}: has_next_page=true on an empty page (no end cursor to continue with)", ctx(&seen)))),
        }
        if pages > keys.len() + 2 {
            return Err(viol(format!("traversal-does-not-terminate:{}", dname(dir)), format!("{}: more than {} pages", ctx(&seen), keys.len() + 2)));
        }
    }
    if seen != whole {
        let class = if seen.len() > whole.len() { "entry-repeated" } else { "entry-skipped" };
        return Err(viol(format!("traversal:{class}:{}", dname(dir)), format!("{}: expected the whole collection once in order {whole:?}, traversal enumerated {seen:?}", ctx(&seen))));
    }
    let expect_pages = std::cmp::max(1, keys.len().div_ceil(size as usize));
    if pages != expect_pages {
        return Err(viol(format!("traversal:page-count:{}", dname(dir)), format!("{}: {pages} pages, expected {expect_pages}", ctx(&seen))));
    }
    Ok(pages)
}

fn illegal_queries(keys: &[u64]) -> Vec<(Query, &'static str)> {
    let c = Some(keys.first().copied().unwrap_or(10).to_string());
    let mut v = vec![];
    for after in [None, c.clone()] {
        for before in [None, c.clone()] {
            for first in [None, Some(2)] {
                for last in [None, Some(2)] {
                    let legal = matches!((&after, &before, first, last), (_, None, Some(_), None) | (None, _, None, Some(_)));
                    if !legal {
                        let why = match (first, last) {
                            (Some(_), Some(_)) => "first-and-last",
                            (None, None) => "neither-first-nor-last",
                            (Some(_), None) => "before-with-first",
                            (None, Some(_)) => "after-with-last",
                        };
                        v.push((Query { keys: keys.to_vec(), after: after.clone(), before: before.clone(), first, last }, why));
                    }
                }
            }
        }
    }
    v.push((Query { keys: keys.to_vec(), after: None, before: None, first: Some(-1), last: None }, "negative-first"));
    v.push((Query { keys: keys.to_vec(), after: None, before: None, first: None, last: Some(-1) }, "negative-last"));
    v.push((Query { keys: keys.to_vec(), after: Some("not-a-number".into()), before: None, first: Some(2), last: None }, "undecodable-after"));
    v.push((Query { keys: keys.to_vec(), after: None, before: Some("not-a-number".into()), first: None, last: Some(2) }, "undecodable-before"));
    v
}

fn eval_case(case: &Case) -> (String, Result<(), Violation>) {
    let q = &case.query;
    let dir = if q.first.is_some() { Dir::Fwd } else { Dir::Bwd };
    match case.kind.as_str() {
        "illegal" => match guarded(|| run_query(q)) {
            Err(p) => ("panic".into(), Err(viol("panic", format!("query {q:?} panicked: {p}")))),
            Ok(Ok(page)) => (
                "illegal-accepted".into(),
                Err(viol("illegal-arguments-accepted", format!("query {q:?} is not a supported argument combination but returned a page with {} edges", page.edges.len()))),
            ),
            Ok(Err(_)) => ("illegal-rejected".into(), Ok(())),
        },
        "traversal" => {
            let size = q.first.or(q.last).unwrap_or(1);
            match guarded(|| check_traversal(&q.keys, dir, size)) {
                Err(p) => ("panic".into(), Err(viol("panic", format!("traversal {q:?} panicked: {p}")))),
                Ok(Err(v)) => ("traversal-violation".into(), Err(v)),
                Ok(Ok(pages)) => (format!("traversal-{}-{}", dname(dir), if pages > 1 { "multi-page" } else { "single-page" }), Ok(())),
            }
        }
        _ => {
            let size = q.first.or(q.last).unwrap_or(1);
            let cursor: Option<u64> = match dir {
                Dir::Fwd => q.after.as_ref().and_then(|c| c.parse().ok()),
                Dir::Bwd => q.before.as_ref().and_then(|c| c.parse().ok()),
            };
            match guarded(|| run_query(q)) {
                Err(p) => ("panic".into(), Err(viol("panic", format!("query {q:?} panicked: {p}")))),
                Ok(Err(e)) => ("page-error".into(), Err(viol(format!("legal-query-rejected:{}", dname(dir)), format!("query {q:?} is a supported combination but failed: {e}")))),
                Ok(Ok(page)) => match check_page(&q.keys, dir, cursor, size, &page) {
                    Err(v) => ("page-violation".into(), Err(v)),
                    Ok(unchecked_back_flag) => {
                        let class = format!(
                            "page-{}-{}{}{}",
                            dname(dir),
                            if page.edges.is_empty() { "empty" } else if page.has_next_page { "more" } else { "last" },
                            if cursor.is_some() { "-cursor" } else { "-start" },
                            if unchecked_back_flag { "-absent" } else { "" }
                        );
                        (class, Ok(()))
                    }
                },
            }
        }
    }
}

pub fn cases(max_n: usize, max_size: i32) -> Vec<Case> {
    let mut out = vec![];
    for n in 0..=max_n {
        let keys: Vec<u64> = (1..=n as u64).map(|i| i * 10).collect();
        for dir in [Dir::Fwd, Dir::Bwd] {
            for size in 0..=max_size {
                // every cursor position: every entry, every gap, before the first, beyond the last
                let mut cursors: Vec<Option<u64>> = vec![None];
                for c in (5..=(n as u64) * 10 + 5).step_by(5) {
                    cursors.push(Some(c));
                }
                cursors.push(Some(0));
                cursors.push(Some(u64::MAX));
                for c in cursors {
                    out.push(Case { kind: "page".into(), query: mk_query(&keys, dir, c, size) });
                }
                if size >= 1 {
                    out.push(Case { kind: "traversal".into(), query: mk_query(&keys, dir, None, size) });
                }
            }
            for huge in [i32::MAX - 1, i32::MAX] {
                out.push(Case { kind: "page".into(), query: mk_query(&keys, dir, None, huge) });
                out.push(Case { kind: "traversal".into(), query: mk_query(&keys, dir, None, huge) });
            }
        }
        for (q, _) in illegal_queries(&keys) {
            out.push(Case { kind: "illegal".into(), query: q });
        }
    }
    out
}

pub fn main(cli: &Cli) {
    if let Some(path) = &cli.replay {
        let rf = load_replay(path);
        let case: Case = serde_json::from_value(rf.history.clone()).unwrap_or_else(|e| machinery_failure(&format!("bad C38 replay: {e}")));
        let (class, r) = eval_case(&case);
        println!("replay: case {case:?} -> class {class}");
        if case.kind == "page" {
            println!("  real answer: {:?}", run_query(&case.query).map(|p| (p.edges, p.has_previous_page, p.has_next_page)));
        }
        match r {
            Ok(()) => {
                println!("replay: no violation");
                std::process::exit(0)
            }
            Err(v) => {
                println!("replay: violation {} / {}", v.sig, v.msg);
                println!("VIOLATION property=C38 replay=(replayed)");
                std::process::exit(1)
            }
        }
    }
    let mut run = Run::new(cli, "exploration");
    let max_n = cli.tier.pick(6, 14);
    let max_size = cli.tier.pick(7, 16);
    let all = cases(max_n, max_size);
    let eval = |i: usize, sw: &mut Sweep| {
        let case = &all[i];
        let (class, r) = eval_case(case);
        let q = &case.query;
        let nontrivial = if !q.keys.is_empty() && (case.kind == "traversal" || q.after.is_some() || q.before.is_some()) { Some(hash_of(&serde_json::to_string(case).unwrap())) } else { None };
        sw.case(nontrivial, &class, || serde_json::to_value(case).unwrap(), r);
    };
    let mut sw = par_sweep(
        "query_pagination",
        "every collection of 0..=N u64 keys (10,20,..), both directions (first/after, last/before), page sizes 0..=S and i32::MAX(-1), every cursor position (each entry, each gap, below the first, above the last, none); full traversals following the end cursor while has_next_page for every size>=1; every unsupported argument combination. non-trivial = collection non-empty and (a cursor given or a traversal); distinct by the whole input",
        all.len(),
        cli.threads,
        eval,
    );
    crate::first_witnesses(&mut sw, all.len(), eval);
    // vacuity: both directions must have produced multi-page traversals, and rejections must have been seen
    for need in ["traversal-forward-multi-page", "traversal-backward-multi-page", "illegal-rejected", "page-forward-more-cursor", "page-backward-more-cursor"] {
        if !sw.outcomes.contains_key(need) && sw.violations.is_empty() {
            machinery_failure(&format!("C38: vacuous sweep, outcome class {need} never produced"));
        }
    }
    let absent = sw.outcomes.iter().filter(|(k, _)| k.ends_with("-absent")).map(|(_, v)| *v).sum::<u64>();
    run.note("bounds", json!({"max_entries": max_n, "max_page_size": max_size, "cases": all.len()}));
    run.note("cursor_not_in_collection_cases_back_flag_unchecked", json!(absent));
    run.add_sweep(sw);
    run.assume("flags are read in traversal direction (the convention of this API and of fuel-core-client): a traversal continues with the END cursor while has_next_page, for `first/after` and for `last/before` alike; backward pages list entries in descending order");
    run.assume("has_previous_page is demanded false on the first page (no cursor), true when the given cursor is an entry of the collection; for a cursor that is not an entry (cannot arise from a traversal of the same collection) only page content and has_next_page are demanded");
    run.assume("the `entries` closure follows the contract of fuel-core's storage iterators: iteration starts at the start key inclusively (first key >= start forward, last key <= start in reverse)");
    run.finish();
}
