#!/bin/sh
# Build every harness crate once (offline, from files on disk only).
set -e
cd "$(dirname "$0")/harness"
export CARGO_NET_OFFLINE=true
unset RUSTFLAGS
export CARGO_TARGET_DIR="${VERIF_TARGET_DIR:-$(pwd)/target}"
cargo build --release --offline --workspace
# C07 lives in its own workspace (enables the wasm-executor feature, which must
# not be unified into the other executor checks).
if [ -d vh-exec-wasm ]; then
  (cd vh-exec-wasm && cargo build --release --offline)
fi
