#!/bin/sh
# Build every harness crate once (offline, from files on disk only).
set -e
cd "$(dirname "$0")/harness"
export CARGO_NET_OFFLINE=true
unset RUSTFLAGS
export CARGO_TARGET_DIR="${VERIF_TARGET_DIR:-$(pwd)/target}"
cargo build --release --offline --workspace
